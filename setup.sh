#!/bin/sh
# Offline setup: z3-solver (and the cvc5 wheel for the thorough cross-check) into /verif/.deps
set -e
HERE="$(cd "$(dirname "$0")" && pwd)"
if [ ! -d "$HERE/.deps/z3" ]; then
    PIP_NO_INDEX=1 /venv/bin/pip install --quiet --no-index --find-links /opt/veriftools/wheels \
        --target "$HERE/.deps" z3-solver cvc5
fi
PYTHONPATH="$HERE/.deps:$HERE:/repo" /venv/bin/python -m symx.selftest
