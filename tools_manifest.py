"""Regenerates MANIFEST.json from the table below (keeps it valid and in one place)."""
import json

NA_REASONS = {
    "C05": "Agreement of compute/persist/optimize/to_delayed entry points and name preservation is dask's collection protocol over object identity and names; there is no input dimension a solver can quantify that the entry points do not treat opaquely.",
    "C06": "'Equal names => equal arrays' is a statement about tokenize (hashing/pickling loops over bytes) and process-global registries; a collision is a hash/registry fact, not arithmetic an SMT encoding of the code can reach.",
    "C07": "Determinism across processes and pickle round trips: serialization and hashing live behind C code and whole-process runs; nothing symbolic to execute.",
    "C10": "Thread schedules and in-place mutation of NumPy buffers by C kernels (views vs copies): concurrency and FFI are outside what the engine can model.",
    "C20": "block_info payloads are concrete literals computed inside map_blocks and the property is about which rewrites may cross ChunksFreeze -- object-graph behaviour of nodes that content-hash their operands.",
    "C21": "GraphRecordsLayer is structural translation of Task objects; no numeric kernel, and equality of two task graphs on concrete programs would be enumeration, not solving.",
    "C22": "Rust/PyO3 layers: no Rust symbolic engine (Kani) is installed and the extension is not built in the baseline environment.",
    "C23": "RNG state, seed spawning and bit generators are C code with hidden mutable state.",
    "C26": "Import-order side effects on xarray's chunk-manager registry in fresh interpreters; no arithmetic.",
    "C28": "Unknown sizes become known only by executing NumPy kernels on data; the guards are NaN dispatch with nothing to quantify.",
    "C29": "'Never touches data' is an effect/taint property of calls on external objects, not a value property a solver can decide.",
}
PENDING = "solver-based check designed in DESIGN.md section 6 but not yet built in this revision"

CHECKS = {}


def check(pid, text, note, ref, technique="bounded symbolic execution of the repo's function objects (symx) + z3 SMT"):
    CHECKS[pid] = dict(
        property_id=pid,
        quick_cmd=f"./check {pid} --tier quick",
        thorough_cmd=f"./check {pid} --tier thorough",
        evidence_file=f"/verif/evidence/{pid}.json",
        replay_cmd_template=f"./check {pid} --replay {{path}}",
        engine="symx",
        level_claimed=dict(category="other", text=text, design_ref=ref),
        level_note=note,
        technique=technique,
    )


check("C13",
      "Solver-decided for all integer values within structural bounds: the repository's normalize_slice, fuse_slice, "
      "_compose_slices, normalize_index->_slice_1d->new_blockdim, _compute_sliced_chunks and _slice_chunks are executed "
      "symbolically (their own bytecode on z3 proxies); for every feasible path z3 shows the negated obligation unsat. "
      "Sizes, starts, stops are unbounded mathematical integers; slice steps, None-patterns, block counts (<=3 quick, <=5 "
      "thorough) and tuple shapes are enumerated. This is the level the property is stated at (helper exactness).",
      "Trusted: z3; symx proxies/shims (validated each run by replaying solver witnesses on the un-shimmed code) and the "
      "40-line slice/range reference model (validated against CPython by setup). Outside: list/array members in "
      "fuse_slice, more blocks than the bound, sizes >= 2**53 in new_blockdim's float ceil.",
      "DESIGN.md 6 C13")

ALL = [f"C{i:02d}" for i in range(1, 30)]


def main():
    na = []
    for pid in ALL:
        if pid in CHECKS:
            continue
        na.append(dict(property_id=pid, reason=NA_REASONS.get(pid, PENDING)))
    m = dict(
        version=1,
        setup_cmd="sh /verif/setup.sh",
        hooks=dict(guard="DASK_ARRAY_VERIF", enable="no hooks: checks import /repo's working tree unmodified",
                   baseline_off_cmd="cd /repo && /venv/bin/python -m pytest -ra -q -p no:cacheprovider --timeout=900 --continue-on-collection-errors",
                   source_commits=[], add_only=True),
        engines=[dict(name="symx", path="/verif/symx", serves_properties=sorted(CHECKS),
                      kind_free_text="proxy-based symbolic executor for Python function objects over z3 (path enumeration by re-execution, solver-decided obligations, concrete replay)")],
        checks=[CHECKS[k] for k in sorted(CHECKS)],
        notes="All checks: ./check <ID> [--tier quick|thorough]; exit 0 pass, 1 VIOLATION, 2 inconclusive/harness error. "
              "Fix commits in /repo: 15fbc37 (normalize_slice).",
        not_applicable=na,
    )
    json.dump(m, open("MANIFEST.json", "w"), indent=1)


if __name__ == "__main__":
    main()
