"""Regenerates MANIFEST.json from the table below (keeps it valid and in one place)."""
import json

NA_REASONS = {
    "C07": "Determinism across processes and pickle round trips: serialization and hashing live behind C code and whole-process runs; nothing symbolic to execute.",
    "C10": "Thread schedules and in-place mutation of NumPy buffers by C kernels (views vs copies): concurrency and FFI are outside what the engine can model.",
    "C21": "GraphRecordsLayer is structural translation of Task objects; no numeric kernel, and equality of two task graphs on concrete programs would be enumeration, not solving.",
    "C22": "Rust/PyO3 layers: no Rust symbolic engine (Kani) is installed and the extension is not built in the baseline environment.",
    "C23": "RNG state, seed spawning and bit generators are C code with hidden mutable state.",
    "C26": "Import-order side effects on xarray's chunk-manager registry in fresh interpreters; no arithmetic.",
    "C28": "Unknown sizes become known only by executing NumPy kernels on data; the guards are NaN dispatch with nothing to quantify.",
}
PENDING = "solver-based check designed in DESIGN.md section 6 but not yet built in this revision"

CHECKS = {}


def check(pid, text, note, ref, technique="bounded symbolic execution of the repo's function objects (symx) + z3 SMT"):
    CHECKS[pid] = dict(
        property_id=pid,
        quick_cmd=f"./check {pid} --tier quick",
        thorough_cmd=f"./check {pid} --tier thorough",
        evidence_file=f"/verif/evidence/{pid}.json",
        replay_cmd_template=f"./check {pid} --replay {{path}}",
        engine="symx",
        level_claimed=dict(category="other", text=text, design_ref=ref),
        level_note=note,
        technique=technique,
    )


check("C13",
      "Solver-decided for all integer values within structural bounds: the repository's normalize_slice, fuse_slice, "
      "_compose_slices, normalize_index->_slice_1d->new_blockdim, _compute_sliced_chunks and _slice_chunks are executed "
      "symbolically (their own bytecode on z3 proxies); for every feasible path z3 shows the negated obligation unsat. "
      "Sizes, starts, stops are unbounded mathematical integers; slice steps, None-patterns, block counts (<=3 quick, <=5 "
      "thorough) and tuple shapes are enumerated. This is the level the property is stated at (helper exactness).",
      "Trusted: z3; symx proxies/shims (validated each run by replaying solver witnesses on the un-shimmed code) and the "
      "40-line slice/range reference model (validated against CPython by setup). Outside: list/array members in "
      "fuse_slice, more blocks than the bound, sizes >= 2**53 in new_blockdim's float ceil.",
      "DESIGN.md 6 C13")

check("C12",
      "Solver-decided for basic indices (ints, slices of every None-pattern and sign, None, Ellipsis) on 1-D and 2-D inputs "
      "with symbolic chunk sizes and unbounded symbolic bounds: the real pipeline normalize_index -> slice_array -> "
      "slice_slices_and_integers -> SliceSlicesIntegers.chunks/_layer is executed symbolically on a fake input node and the "
      "emitted key grid, per-block getitem slices and block order are compared block-locally with the NumPy meaning of the "
      "index (reference view model); IndexError iff NumPy raises. Block counts (<=3 quick, <=4 thorough), steps and index "
      "kinds are enumerated.  Also end to end, through Array.__getitem__ / .vindex, the repository's optimizer, layers and the "
      "finalize step of compute(): every catalogue program with an index in it -- slices over every pushdown target, chains "
      "x[a:b][c:d] and x[a::2][b:c], concrete integer lists (take/Shuffle), x.vindex with two index arrays on 3-d/4-d inputs "
      "(entries enumerated by solver-driven forking, other axes' sizes symbolic) -- equals NumPy's meaning at a skolem "
      "position; the .vindex bounds guard on symbolic ints; unsupported forms (dask int array next to a list/ndarray, two "
      "lists) raise NotImplementedError.  .blocks[...] on catalogue programs (blocks of the layout advertised when .blocks is "
      "taken).  Integer dask-array indices: the two block kernels run on arrays of unbounded symbolic index entries (1-3 "
      "entries, 2-3 blocks of symbolic size): in-range entries select NumPy's element, others raise IndexError; combined with "
      "other indices the optimizer gets through and the advertised shape is NumPy's.",
      "Trusted: z3, symx shims (witness-replayed each run), the slice/view reference model, symx.sarr's NumPy indexing "
      "(validated against NumPy), symx.iarr. Outside (not decided): boolean masks, unknown chunk sizes, dask index arrays of "
      "several chunks end to end.",
      "DESIGN.md 6 C12")

check("C14",
      "Solver-decided index arithmetic of rechunking for all chunk sizes (unbounded integers) within block-count bounds: "
      "the crosswalk (cumdims_label/_breakpoints/_intersect_1d/old_to_new/intersect_chunks) covers every new block exactly "
      "once in order with in-bounds pieces; the real _compute_rechunk task layer has identity provenance and a closed key "
      "grid; the Rechunk pushdown rewrites through slice / concatenate / transpose / expand_dims and "
      "FromArray._accept_rechunk keep the requested chunks and identity provenance; x.rechunk(spec).chunks equals the "
      "normalised spec for int/-1/tuple/dict/'auto' specs; and every catalogue program with a rechunk in it (over elemwise "
      "with/without keyword arguments and explicit dtype, transpose, concatenate, expand_dims, slices, another rechunk) is "
      "materialized by the repository's pipeline with optimization on and off: blocks have the requested sizes and the values "
      "are those of the un-rechunked program.",
      "Trusted: z3, symx shims, recorders standing in for expression constructors (listed in evidence.stubs). Outside: "
      "balance=True on symbolic sizes (decided on concrete size lists only: the balanced target is advertised and kept through elemwise / transpose / expand_dims pushdowns and rechunk fusion), p2p, the planner (C15), more blocks than the bound.",
      "DESIGN.md 6 C14")

check("C15",
      "Solver-decided, as the property is stated, for the real plan_rechunk (with find_merge_rechunk, find_split_rechunk, "
      "divide_to_width, merge_to_number, _bound_degree, estimate_graph_size) under a dask.config stub whose threshold and "
      "chunk-size are symbolic: every plan is a non-empty list of positive chunkings with the old per-axis sums ending in "
      "the target, every step's largest block is within max(limit/itemsize, largest old, largest new), internal asserts "
      "never fire. 1-D and 2-D with small block counts, and 3-D arrays with a zero-length axis; chunk sizes bounded (products "
      "are nonlinear and log/pow concretise).",
      "Trusted: z3 (QF_NIA within small bounds), symx shims, exact-rational float model. Bounded: sizes 1..4 (quick) / 1..6 "
      "(thorough), threshold 1..4/1..8, limit 1..16/1..64, degree-limit enumerated. Outside: larger sizes/ranks, float rounding.",
      "DESIGN.md 6 C15")

check("C16",
      "Solver-decided, as stated, for the real normalize_chunks/auto_chunks/blockdims_from_blockshape/round_to on spec forms "
      "int, tuple of ints, tuple of tuples, dict, -1, None, 'auto' and byte limits (symbolic limit): one non-empty tuple per "
      "axis, sizes >= 0 summing to the axis length, zero sizes only on zero-length axes, uniform specs give c..c,last with "
      "0<last<=c, 'auto' stays within the byte limit (times the documented tolerance) unless the fixed axes alone exceed it; "
      "invalid specs raise ValueError. Sizes unbounded with <=4 blocks per uniform axis; two auto axes with shape<=12.",
      "Trusted: z3, symx shims, exact-rational float model. Outside: object dtypes, non-default chunk-size-tolerance, "
      "sizes >= 2**53, more than 4 blocks per uniform axis.",
      "DESIGN.md 6 C16")

check("C24",
      "Solver-decided for chains of up to 3 pushed basic indices (unit-step slices of every None-pattern, integers) and a "
      "pushed rechunk over 1-D/2-D sources with symbolic chunk sizes and unbounded bounds: symbolic nodes of the real "
      "FromArray/SliceSlicesIntegers/TasksRechunk classes are driven through FromArray._accept_slice/_accept_rechunk/"
      "_with_chunks, the real _layer graphs of the resulting tree are executed on symbolic arrays (elements = uninterpreted "
      "function of the source position) and compared with NumPy indexing of the source for a skolem output index; every "
      "store request is shown to be an in-bounds unit-step slice; blocks have the advertised shapes; key grid exact. "
      "ndarray sources (eager-copy branch, both sides of the 64 MiB threshold), plain stores, inline_array, stores with a "
      "storage grid (chunk size 2,3).",
      "Trusted: z3, symx shims, symx.sarr (NumPy semantics of basic indexing/concatenation on symbolic arrays), the kernels "
      "getitem/getter/concatenate3 interpreted by their NumPy meaning. Stubs: constructors/tokenize bypassed by symx.nodes, "
      "plan_rechunk -> [target]. Outside: custom getitem, locks, zarr/h5py objects, non-unit steps inside the read.",
      "DESIGN.md 6 C24",
      technique="bounded symbolic execution of the repo's expression classes (symx nodes) + symbolic-array graph execution + z3 SMT (QF_UFLIA)")

check("C25",
      "Solver-decided for 1-D/2-D sources with symbolic chunk sizes, targets of symbolic length and regions with symbolic "
      "bounds (None-patterns enumerated, steps 1..2/3), one or two source/target pairs, compute on/off, return_stored on/off: "
      "the real store() orchestration and load_store_chunk/load_chunk (with the real fuse_slice and dask's ArraySliceDep) are "
      "executed symbolically; after all block writes the target's element function equals, at a skolem position, 'source "
      "element at the position's rank inside the region, else the original content'; every block is written exactly once with "
      "a selection of exactly its shape; read-back blocks equal the source blocks. load_store_chunk additionally with "
      "arbitrary unit-step indices inside stepped regions.",
      "Trusted: z3, symx shims, the mutable symbolic-array model of a target (functional update per write). Stubs: map_blocks "
      "-> block-by-block executor, persist/compute -> identity, Array -> symbolic source class. Outside: locks, delayed "
      "targets, schedulers, npy-stack file I/O, negative region steps.",
      "DESIGN.md 6 C25",
      technique="bounded symbolic execution of the repo's store functions (symx) + symbolic-array target model + z3 SMT")

check("C27",
      "Solver-decided, at the level the property is stated: moved_fraction in [0,1], 0 for identical layouts and pure splits "
      "(<=3/4 blocks per side, unbounded sizes, zero-width blocks); _rechunk_stage_transfer and the transfer_bytes property "
      "of every class that overrides it with arithmetic (default ArrayExpr formula, Blockwise, Rechunk/TasksRechunk/"
      "P2PRechunk as produced by the real Rechunk._lower, SliceSlicesIntegers, OverlapInternal, PartialReduce, CumReduction, "
      "CumReductionBlelloch, Shuffle with symbolic index values, Stack) satisfy 0 <= min <= max on symbolic nodes with "
      "symbolic chunk sizes; same-chunk rechunks and alias nodes give (0,0); NaN sizes give (nan,nan).",
      "Trusted: z3 (QF_LIRA; QF_NIA/NRA for two-axis products with sizes <= 3..6), symx shims, exact-rational float model. "
      "Outside: sums over whole optimized trees, sliding/moving-window estimates (C19 units), sizes beyond the two-axis bound.",
      "DESIGN.md 6 C27",
      technique="bounded symbolic execution of the repo's transfer_bytes properties on symbolic nodes (symx) + z3 SMT")

check("C17",
      "Solver-decided for 2-3 operands, rank <= 2, <= 3 blocks per axis with symbolic chunk sizes (unbounded under "
      "refine/coarse, <= 6 under auto whose cost model is nonlinear) and a symbolic array.unify-chunks-limit: the real "
      "unify_chunks_expr (coarse_blockdim, moved_fraction, common_blockdim, dask's broadcast_dimensions, ArrayExpr.rechunk, "
      "Rechunk.chunks) runs on symbolic operand nodes; every operand ends on the one common layout per index (broadcast axes "
      "untouched), layouts sum to the axis length, 'refine' only adds boundaries, and under every policy no operand's "
      "largest block exceeds max(limit, its own largest block). common_blockdim/coarse_blockdim alone: result is a layout "
      "of the axis with no invented boundary; common_blockdim refines every operand.",
      "Trusted: z3, symx shims incl. equality-based SymSet/SymDict (set/dict displays in the three modules are desugared from "
      "the current source at run time). Value preservation of the inserted rechunks is C14's subject. Outside: unknown (nan) "
      "sizes, more operands/blocks than the bound.",
      "DESIGN.md 6 C17")

check("C19",
      "Solver-decided for the native sliding-window reduction, the trailing (bottleneck move_*) window reduction, the "
      "cumulative scans (sequential, Blelloch) and overlap / map_overlap (boundary none, periodic, reflect; symbolic depth) "
      "with symbolic window, chunk sizes and output position (block counts concrete: "
      "2..4/5 for windows, 1..9/17 for Blelloch, 2..3 for overlap): map_overlap(identity) through the real MapOverlap._lower "
      "(rechunk -> boundaries -> OverlapInternal -> map_blocks -> trim_internal) equals its input, overlap() equals the "
      "per-block windows of the padded array; symbolic nodes of the real classes build _block_plan/_layer; the graphs run "
      "on symbolic arrays through the repository's own block kernels (_sliding_window_banded_reduce, "
      "_sliding_window_block_total, _moving_window_banded_reduce incl. counts/min_count/NaN masking, _cum_tail, "
      "_prefixscan_*); running sums are terms over an uninterpreted prefix function of the source, so equality with the NumPy "
      "definition at a skolem position holds for every data iff the combined pieces tile the window/prefix exactly.  Also: "
      "exact key grid, advertised block shapes; and the public sliding_window_view end to end -- the view alone (also two "
      "windows on one axis) and view.sum(-1) with the real SlidingWindowView._simplify_up choosing the overlap plan or the "
      "native kernels per path -- against the NumPy definition; the public cumsum (both methods), diff and gradient (scalar spacing) "
      "programs; slices pushed through map_overlap; map_overlap(trim=False).",
      "Trusted: z3, symx shims, symx.sarr scan model (accumulate/reduce of views and concatenations of views), exact reals. "
      "The tiling argument extends the verdict from add to the other reducers that share the kernel code path (stated, not "
      "separately discharged). Outside: 'nearest' and constant-value boundaries, gradient with coordinate arrays / edge_order 2, "
      "masked arrays, var, float rounding.",
      "DESIGN.md 6 C19",
      technique="bounded symbolic execution of the repo's layers and block kernels on symbolic arrays (symx) + z3 SMT (QF_UFLIRA)")

check("C18",
      "Solver-decided in three parts. (a) Tree shape: the real _build_tree_reduce_expr/_normalize_split_every/"
      "PartialReduce.chunks/_layer build the reduction tree over a symbolic array (1..9/16 blocks, split_every 2..5/16, "
      "symbolic chunk sizes, rank <= 2); the graph is executed on symbolic arrays and equals the sum over the whole axis at a "
      "skolem position for every chunk-size assignment; the reduced axis ends with one block, every partial block is used "
      "exactly once. (b) Combine algebra: the real mean_*/moment_* (orders 2-4, ddof 0/1)/arg_* chunk-combine-aggregate "
      "functions run on object arrays of symbolic reals; for every data vector the tree result equals the definition (mean, "
      "central moments, first arg-extremum including ties) for every enumerated grouping and tree shape. (c) The public "
      "min/max and nanargmin/nanargmax: the functions they wire into reduction()/arg_reduction(), the tree the real lowering "
      "builds and the real kernels, executed on object-array blocks of symbolic reals with concrete chunk sizes (zero-length "
      "chunks, whole tree groups empty) and concrete NaN placements; the result bounds and belongs to the data / is the first "
      "extremum among the non-NaN entries of each slice.",
      "Trusted: z3 (QF_UFLIRA for (a), QF_NRA for (b), QF_LRA for (c)), symx shims, exact reals (the property's floating "
      "tolerance clause is not decided), dtype=object code path for (b),(c). Outside: topk/percentile/ptp/average, dtype "
      "promotion; slice-through-reduction is a rewrite (C02).",
      "DESIGN.md 6 C18")

check("C11",
      "Solver-decided for the assignment arithmetic: the real setitem_array_expr / parse_and_validate_assignment / "
      "parse_assignment_indices (via the real normalize_index) run on 1-D/2-D arrays with symbolic chunk sizes and symbolic, "
      "unbounded slice bounds and integer indices (steps +-1..2/3, every None-pattern; values of exact shape, length-1 axes, "
      "scalar, trailing-axes only; plain and masked); the emitted graph (setitem on touched blocks, aliases elsewhere) is "
      "executed with the repository's own setitem chunk function on a shared-buffer model of the blocks (copy() private, "
      "view()/masked_array(copy=False) aliases, a write into a received block or an alias is a failed obligation) and the "
      "assembled result equals, at a skolem position, NumPy's result of the same "
      "assignment (selected positions hold the broadcast value element of the right rank, reversed for negative steps; all "
      "other positions keep x); IndexError iff an integer is out of range; no spurious ValueError.  _elemwise_handle_where "
      "(ufunc where=, out=x) yields where(mask, a+b, x) without writing into x's block, owned or not.  Writing only private "
      "copies is what keeps earlier slices/copies of x and the source arrays unchanged.  Also: an integer before an "
      "integer-list key; where=/out= programs end to end (a slice / integer index of the result, two masked calls in one "
      "graph); collections derived by identity-like operations under an in-place replacement (known finding).",
      "Trusted: z3, symx shims, mutable symbolic-array model of x[idx] = v, the shared-buffer model (which NumPy calls alias "
      "and which copy is written from NumPy's documentation). NOT decided (stated): compute_chunk_sizes, the collection-level "
      "bookkeeping of out= (handle_out), mask propagation of masked values, array/boolean/dask keys.",
      "DESIGN.md 6 C11")

check("C05",
      "Solver-decided for the entry points that are code of this repository, on the catalogue programs (sizes, bounds and data "
      "symbolic): Array.compute's pinned expression under the FinalizeComputeArray layer yields NumPy's value; Array.persist -- "
      "the pinned graph executed for exactly the advertised keys, the results dict handed to the rebuild function "
      "__dask_postpersist__ returns (from_graph/FromGraph, with the collection's own keys and with outputs renamed by the "
      "scheduler) -- keeps name, chunks, dtype and keys and yields the same blocks; dask.optimize(x) -- dask's own generic "
      "Expr.__dask_graph__ walk over the collection's un-lowered expression followed by the same rebuild -- keeps name, chunks, "
      "dtype and yields the same value; x.optimize() keeps dtype and value; a slice / a negation applied to the persisted / "
      "optimized collection yields what it yields on x.",
      "Trusted: as C01; the graph runner stands for the scheduler (returns {key: block} for the advertised keys); dask.base's "
      "drivers (collections_to_expr, unpack/repack) are not executed -- the generic walk is. Known finding (listed, not "
      "repaired): dask.optimize over an aligned Blockwise whose operands still need unifying. Outside: several collections at "
      "once, to_delayed, distributed futures.",
      "DESIGN.md 6 C05", technique="bounded symbolic execution of the repo's own optimizer pipeline and layers on symbolic-size expression trees (symx nodes) + symbolic-array graph execution + z3 SMT (QF_UFLIA)")

check("C06",
      "Solver-decided for the naming logic of this repository on the catalogue programs: every program is pushed through raw "
      "lowering, simplify, lower, fuse and materialize (optimization on and off); all nodes created on the path -- FromArray "
      "regions and absorbed rechunks with their hand-built names, rechunk names, fused groups, the RootAlias pin, and every class "
      "whose __dask_tokenize__ the repository overrides (the override itself decides what enters a symbolic node's token) -- "
      "are grouped by name; whenever a name is carried by nodes of different full structure (class and operands compared "
      "recursively), they have the same chunks and dtype and, executed from their own lowered graphs on symbolic blocks, the same "
      "values at a skolem position, for every chunk-size assignment, bound and data.",
      "Trusted: as C01; the content hash under the names is a structural digest (hash collisions are outside the claim). Outside: "
      "pairs of nodes from unrelated programs in one process, random arrays, persisted graphs, dask's SingletonExpr registry and "
      "the name-keyed lowering cache across programs (the latter under C09).",
      "DESIGN.md 6 C06", technique="bounded symbolic execution of the repo's own optimizer pipeline and naming code on symbolic-size expression trees (symx nodes) + symbolic-array graph execution + z3 SMT (QF_UFLIA)")

check("C29",
      "Solver-decided for the catalogue programs built over recording sources (array-likes that are not NumPy arrays and note every "
      "selection requested from them) and recording user block functions, with symbolic chunk sizes, bounds and data: while a "
      "program is constructed through the public functions, while its metadata is read (shape, chunks, dtype, name, keys, "
      "numblocks, size, meta, transfer estimate) and while it is optimized (simplify, lower, fuse, materialize with optimization "
      "on and off, Array.optimize), every selection requested from a source has a zero extent and every call of a user block "
      "function is on empty blocks -- for every chunk-size assignment; executing the graph afterwards does read the sources "
      "(the recorder is live).",
      "Trusted: as C01; meta_from_array on a symbolic source is emulated (requests the empty selection the real function requests, "
      "returns a real empty array). Not counted: calls on dask's one-element dtype-inference dummy; len()/repr() (concretisation). "
      "Outside: NumPy sources (exempt by the statement), attribute access on zarr/h5py objects, to_delayed, dask's drivers.",
      "DESIGN.md 6 C29", technique="bounded symbolic execution of the repo's own construction / metadata / optimizer code on symbolic-size trees over recording sources (symx nodes) + z3 SMT (QF_LIA)")

check("C20",
      "Solver-decided for map_blocks calls with one array input whose function reads block_info (or block_id), placed in ten "
      "enumerated programs with rewrites above the call (slice, transpose, rechunk) and below it (a rechunk the optimizer "
      "absorbs into the source, an unaligned element-wise operation, a slice, the native sliding-window substitution that "
      "trades advertised chunks for native ones), over sources with symbolic, unbounded chunk sizes, slice bounds and data: the "
      "real map_blocks builds the payloads and the ChunksFreeze wrapping on symbolic sizes; every form the repository's "
      "optimizer produces (raw, lowered, fused, materialized with optimization on/off) is executed from its real layers; the "
      "user function obliges each block to have exactly the extent its payload describes (input and output entries, "
      "chunk-shape) and adds the reported start offset to the values, and the result equals the reference written from the "
      "layout advertised when the call was made.",
      "Trusted: as C01. Outside: several array inputs, new_axis/drop_axis, explicit chunks=, impure user functions, more "
      "placements than the enumerated ones.",
      "DESIGN.md 6 C20", technique="bounded symbolic execution of the repo's own optimizer pipeline and layers on symbolic-size expression trees (symx nodes) + symbolic-array graph execution + z3 SMT (QF_UFLIRA)")

CAT = ("an enumerated catalogue of ~90 programs (sources incl. zero-width chunks, transpose, expand_dims, broadcast_to, basic "
       "slices incl. newaxis and negative steps, integer-list indices, .vindex, rechunk, element-wise with aligned / unaligned / "
       "broadcast operands, shared subtrees, keyword arguments and explicit dtype, generic blockwise, concatenate, stack, arange, "
       "diag, sum, sliding_window_view, and compositions: a slice and a rechunk over every pushdown target, chained slices, "
       "nested transposes) over sources with symbolic, unbounded chunk sizes, slice bounds and integer indices (block counts, ranks, "
       "steps concrete)")
TCAT = "bounded symbolic execution of the repo's own optimizer pipeline and layers on symbolic-size expression trees (symx nodes) + symbolic-array graph execution + z3 SMT (QF_UFLIA)"

check("C01",
      "Solver-decided for " + CAT + ": each program is built from the repository's own expression classes and turned into "
      "a task graph by the repository's own _materialize (simplify -> lower -> fuse -> pin), with optimize-graph on and off; "
      "the real _layer graphs are executed on symbolic arrays whose elements are an uninterpreted function of the source "
      "position, and the assembled result equals the NumPy meaning of the program at a skolem index for every size, bound "
      "and data; the value compute() returns (the FinalizeComputeArray layer: finalize over the root's own key nesting) is "
      "executed and compared as well.",
      "Trusted: z3, symx (nodes: constructors/tokenize bypassed with structural names; sarr: NumPy semantics of the block "
      "kernels), dask's simplify/lower drivers run as they are. The program space is enumerated, not all compositions; "
      "reductions/scans/windows/setitem/store/reads are C18/C19/C11/C25/C24; float rounding not modelled (dtype: label only).",
      "DESIGN.md 6 C01", technique=TCAT)

check("C02",
      "Solver-decided for " + CAT + ": the repository's own optimizer runs on the symbolic tree -- dask's Expr.simplify over "
      "the repository's _simplify_down/_simplify_up (slice/rechunk pushdowns with their sharing gates), lower_completely "
      "over _lower (chunk unification, rechunk-into-IO), optimize_blockwise_fusion_array -- and the raw, lowered and fused "
      "forms are each executed from their real layers; all equal the NumPy meaning (hence each other) at a skolem index, with "
      "the advertised block shapes and dtype; fused tasks run through dask's Task.fuse sub-graphs, so each member reads the block "
      "FusedBlockwise._compute_block_ids chose.",
      "Trusted: as C01. Which rewrites fire is whatever the real optimizer does on each path (observed trees are recorded as "
      "witnesses). Outside: rewrites not reachable from the catalogue (reshape, reductions other than sum -> C18); computed "
      "dtypes (only the advertised dtype of each form is compared).",
      "DESIGN.md 6 C02", technique=TCAT)

check("C03",
      "Solver-decided for " + CAT + ": the advertised shape equals NumPy's shape of the program, and in the graph produced by "
      "the repository's own _materialize (optimize-graph on and off) the block at every block index has exactly the size "
      "given by the original node's .chunks on every axis, and the materialized tree advertises the original dtype -- whatever layout the optimizer chose internally (the bridge back "
      "to advertised chunks is part of the executed code).",
      "Trusted: as C01. Outside: the dtype of computed blocks (values are exact reals), unknown (nan) sizes, classes outside "
      "the catalogue (e.g. reshape; reductions' chunks are C18).",
      "DESIGN.md 6 C03", technique=TCAT)

check("C04",
      "Solver-decided for " + CAT + ": the graph from the repository's own _materialize (optimize-graph on and off) is rooted "
      "at the collection's original name, defines exactly the (name, *block index) grid of the advertised block structure, "
      "every key referenced while executing every block is defined (closed), no task depends on itself and no dependency "
      "cycle is met; the Array object's __dask_keys__()/_lowered_expr agree with that grid before and after an in-place "
      "expression replacement.",
      "Trusted: as C01; names are structural digests standing in for content hashes. Outside: FromGraph/persist, "
      "cross-collection graph merging.",
      "DESIGN.md 6 C04", technique=TCAT)

check("C08",
      "Solver-decided for " + CAT + ": on every feasible path of the symbolic execution the repository's optimizer (simplify, "
      "lower_completely, fuse, _materialize) terminates without raising on a program whose raw form computes; optimizing the "
      "optimized expression, simplifying the simplified one and lowering the lowered one return the same name; "
      "_materialize of a materialized tree is itself; the optimized program still executes.",
      "Trusted: as C01; a non-terminating rewrite loop would exhaust the instance budget and be reported inconclusive. "
      "Outside: programs beyond the catalogue.",
      "DESIGN.md 6 C08", technique=TCAT)

check("C09",
      "Solver-decided: configuration half -- unaligned element-wise programs under array.unify-chunks-policy in "
      "{auto, coarse, refine} x a symbolic array.unify-chunks-limit x optimize-graph on/off; rechunks executed through the "
      "repository's own plan_rechunk (multi-stage) under symbolic array.rechunk.threshold / array.chunk-size and degree-limit "
      "2/100; reduction trees under config split_every 2,3,4,16 -- all materialized by the real _materialize and equal to the "
      "NumPy meaning for every value of the key. History half -- two programs sharing a lowered subtree materialized through "
      "one shared _LOWER_CACHE in both orders still compute their NumPy meaning.",
      "Trusted: as C01. Bounded sizes (<=4..5) where the planner is nonlinear. Outside: arbitrary interleavings of many "
      "collections, the singleton registry / weak-reference eviction, method=p2p.",
      "DESIGN.md 6 C09", technique=TCAT)

ALL = [f"C{i:02d}" for i in range(1, 30)]


def main():
    na = []
    for pid in ALL:
        if pid in CHECKS:
            continue
        na.append(dict(property_id=pid, reason=NA_REASONS.get(pid, PENDING)))
    m = dict(
        version=1,
        setup_cmd="sh /verif/setup.sh",
        hooks=dict(guard="DASK_ARRAY_VERIF", enable="no hooks: checks import /repo's working tree unmodified",
                   baseline_off_cmd="cd /repo && /venv/bin/python -m pytest -ra -q -p no:cacheprovider --timeout=900 --continue-on-collection-errors",
                   source_commits=[], add_only=True),
        engines=[dict(name="symx", path="/verif/symx", serves_properties=sorted(CHECKS),
                      kind_free_text="proxy-based symbolic executor for Python function objects over z3 (path enumeration by re-execution, solver-decided obligations, concrete replay)")],
        checks=[CHECKS[k] for k in sorted(CHECKS)],
        notes="All checks: ./check <ID> [--tier quick|thorough]; exit 0 pass, 1 VIOLATION, 2 inconclusive/harness error. "
              "Fix commits in /repo: 15fbc37 (normalize_slice), bfce058 (_bound_degree budget), 82ae11e (normalize_chunks negatives), 5b1d580 (no-op rechunk lowering with balance=True), 9952173 (assignment through an empty reversed slice), 0adac22 (moment_combine empty blocks), f45e2be (split_every dict < 2), 99be851 (arg-reduction tie order over all axes), 1041dc1 (reversed slices over zero-width chunks), 2ddac4e (degree pass budget for 1-d rechunks), a3f6b80 (VIndexArray nested output keys), 2abb8f3 (take through broadcast_to), 28c955e (unaligned blockwise tie-break), 3995a9e (topk output size), bc5089d (argtopk keep-all branch), 15af49d (map_overlap trim=False metadata), 111a6f6 (Reduction under a generic graph walk), 40171ae (slice of a where=/out= elemwise), 786758d (integer + list assignment key), 6f9434c (slice through a multi-input Blockwise with a broadcast axis), ac0faae (min/max over empty blocks), 6378be2 (arg reductions over a zero-length chunk), f563a09 (slice through untrimmed / position-dependent map_overlap), 66571db (assignment of a value with several chunks), 7fdbf79 (.blocks pins its layout), bb76785 (balance=True through pushdowns and fusion), 997e294 (moment order 0/1 keepdims), 211485a (slice through a Blockwise with per-block payloads), ac71789 (integers through a length-1 reshape), f8757ba (empty selection through explicit per-block sizes), 5ba70d7 (native sliding-window reduction pins its input), b761b03 (eye with unequal row/column chunks), c3bcb11 (merge_to_number with zero-width chunks), 522379b (flat 1-d block sizes in rechunk), 3ab28e7 (out-of-bounds integer dask-array index), f7132fa (slice fusion beside an unknown-size axis), d793d76 (balance=True beside an unknown-size axis), b5fc55b (no slice pushdown onto argtopk's tuple blocks), 8ca17e7 (store pins its sources' layout), 3ed266c (no take pushed into per-block payloads), c32437f (fractional chunk sizes refused), e4fcbda (slice/take pushdown through chunk-unifying nodes keeps the advertised chunks), 9b355d2 (coarse pushdown waits for aligned operands), 29d2795 (setitem snapshots its key), e6aa95b (zero-width blocks in an absorbed slice), e9a83f1 (custom getitem arity in region reads), 5e47785 + 208f536 (the two chunk-unifying pushdown repairs made idempotent, contractions included), ace151e ('auto' chunks on empty arrays), 4a5da77 (dict chunk specs with negative / unknown axes), d0c7965 (unification with equal unknown sizes), 9540d36 (integer index before a reversed slice in assignment), a0a2f01 (slices of map_blocks results select whole blocks), 97d98b0 (one chunk unification per node, whatever the configuration later says), b80de08 (slice fusion keeps the advertised chunks); daf8481 was reverted by 0769e07. Known findings (not repaired, listed in known_findings.txt): dask.optimize over an aligned Blockwise with unaligned operands (C05); identity-like operations return self, so in-place assignment reaches earlier full slices (C11); multi-input map_blocks above a natively rewritten sliding-window reduction (C02, C01); a take pushed through a map_blocks call whose function is not element-wise (C02).",
        not_applicable=na,
    )
    json.dump(m, open("MANIFEST.json", "w"), indent=1)


if __name__ == "__main__":
    main()
