"""Prints the prompt given to a seeding sub-agent for one property (property text only)."""
import json, sys
pid = sys.argv[1]
n = sys.argv[2] if len(sys.argv) > 2 else "2"
p = next(json.loads(l) for l in open('/verif/properties.jsonl') if json.loads(l)['id'] == pid)
print(f"""You are helping test a verification effort by playing the role of a developer who introduces a subtle bug.

The codebase is mrocklin/dask-array (an expression-based reimplementation of dask.array). You have your OWN scratch git worktree of it at /tmp/seed-{pid} . Work ONLY inside /tmp/seed-{pid} (never touch /repo or /verif, never read /verif). Python interpreter: /venv/bin/python (run things with `cd /tmp/seed-{pid} && /venv/bin/python ...` so that the worktree's dask_array package is the one imported; check with `python -c "import dask_array; print(dask_array.__file__)"`). The test suite runs with `cd /tmp/seed-{pid} && /venv/bin/python -m pytest -q -p no:cacheprovider --timeout=900 -x -n 4 dask_array` (about 3-5 minutes; there is no network).

Here is a semantic property the library is supposed to satisfy:

  Title: {p['title']}
  Statement: {p['statement']}
  Quantified over: {p['quantifier']['text']}

Your task: produce {n} DIFFERENT small source changes (each independent of the other, each a separate patch against the clean worktree) to the library code under /tmp/seed-{pid}/dask_array (not to its tests) such that, for each change:
  1. the package still imports and the EXISTING test suite still passes completely (same passes as without the change - run it to confirm, and say what you ran and the pass counts);
  2. the property above is now violated for some inputs - but only for inputs/situations that need something specific to manifest: an unusual input (particular sign/size/boundary combination, a value landing exactly on a block edge, a rarely-used option), a multi-step sequence of operations, a particular configuration value, or two cooperating sites that each look fine alone. NOT a change that ordinary use or the existing tests would expose at once;
  3. you provide a demonstration: a small standalone Python program (demo.py) that exits non-zero / fails an assertion WITH the change applied and passes WITHOUT it (compare against NumPy or against the property's own statement). demo.py must begin with `import os, sys; sys.path.insert(0, os.environ.get('DASK_ARRAY_ROOT', os.getcwd()))` before importing dask_array, so that running `cd <checkout> && /venv/bin/python <path>/demo.py` imports the checkout's package (print dask_array.__file__ to confirm); it must use scheduler='synchronous' and finish in under a minute.
Prefer realistic mistakes a maintainer could plausibly make (off-by-one at a boundary, wrong comparison operator, a swapped min/max, a missing special case, mishandled negative step, wrong rounding direction, stale variable), located in the code that implements the behaviour the property talks about (read the code to find where that is). Make the changes touch DIFFERENT functions from one another.

Deliver, for each change k = 1..{n}, a directory /tmp/seed-{pid}/out/{pid}-k/ containing: patch.diff (output of `git diff` for that change alone, applicable with `git apply` to a clean checkout), demo.py, and notes.md (which function you changed, why it breaks the property, what specific input/situation is needed to see it, the exact commands you ran and their results: test-suite pass count with the change, demo failing with the change and passing without it). Leave the worktree itself clean at the end (git checkout -- . ; only the out/ directory remains). In your final message list the directories and one line each describing the change.""")
