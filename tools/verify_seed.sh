#!/bin/sh
# usage: verify_seed.sh <PROP> <k>   -- confirms a seeded change in its scratch worktree and files it under /verif/seeded/
# 1. patch applies  2. demo fails with it  3. existing test suite passes with it  4. demo passes without it
P=$1; K=$2; WT=/tmp/seed-$P; SRC=$WT/out/$P-$K; DST=/verif/seeded/$P-$K
cd $WT || exit 9
git checkout -q -- . 2>/dev/null
git apply --check $SRC/patch.diff || { echo "$P-$K: patch does not apply"; exit 1; }
/venv/bin/python $SRC/demo.py >/tmp/seedlog-$P-$K.clean 2>&1; CLEAN=$?
git apply $SRC/patch.diff
/venv/bin/python $SRC/demo.py >/tmp/seedlog-$P-$K.patched 2>&1; PATCHED=$?
/venv/bin/python -m pytest -q -p no:cacheprovider --timeout=900 -n 6 dask_array >/tmp/seedlog-$P-$K.tests 2>&1; TESTS=$?
SUMMARY=$(tail -1 /tmp/seedlog-$P-$K.tests)
git checkout -q -- .
echo "$P-$K: demo clean exit=$CLEAN patched exit=$PATCHED tests exit=$TESTS :: $SUMMARY"
if [ $CLEAN -eq 0 ] && [ $PATCHED -ne 0 ] && [ $TESTS -eq 0 ]; then
  mkdir -p $DST && cp $SRC/patch.diff $SRC/demo.py $DST/ && cp $SRC/notes.md $DST/notes.md
  echo "{\"confirmed\": true, \"demo_exit_clean\": $CLEAN, \"demo_exit_patched\": $PATCHED, \"tests\": \"$SUMMARY\"}" > $DST/confirm.json
  echo "$P-$K: CONFIRMED"
else
  echo "$P-$K: REJECTED"
fi
