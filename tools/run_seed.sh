#!/bin/sh
# usage: run_seed.sh <seed-dir-name under /verif/seeded> <PROP> [more PROPs]  -- applies the seeded patch to /repo, runs the
# quick checks, undoes the patch.  Prints one line per check and records the outcome in seeded/detection.json.
S=/verif/seeded/$1; shift
cd /repo && git diff --quiet || { echo "repo dirty"; exit 9; }
git apply $S/patch.diff || { echo "$S: patch does not apply to current /repo"; exit 8; }
for P in "$@"; do
  L=/tmp/seedrun-$(basename $S)-$P.log
  cd /verif && ./check $P --tier ${TIER:-quick} > $L 2>&1; RC=$?
  V=$(grep -c "^VIOLATION property=$P" $L)
  FIRST=$(grep -m1 -A1 '^VIOLATION' $L | tail -1 | cut -c1-220)
  echo "$(basename $S) check=$P exit=$RC violation_lines=$V :: $FIRST"
  python3 - "$(basename $S)" "$P" "$RC" "$V" "$FIRST" "${TIER:-quick}" <<'PY'
import json, sys, os
p = "/verif/seeded/detection.json"
d = json.load(open(p)) if os.path.exists(p) else {}
seed, prop, rc, v, first, tier = sys.argv[1:7]
d.setdefault(seed, {})[prop] = dict(tier=tier, exit=int(rc), violation_lines=int(v), caught=(int(rc) == 1 and int(v) > 0), first=first.strip())
json.dump(d, open(p, "w"), indent=1, sort_keys=True)
PY
done
cd /repo && git checkout -q -- . && git status --short | head -3
