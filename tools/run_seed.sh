#!/bin/sh
# usage: run_seed.sh <seed-dir-name under /verif/seeded> <PROP> [more PROPs]  -- applies the seeded patch to /repo, runs the
# quick checks, undoes the patch.  Prints one line per check: exit code and whether a VIOLATION line was printed.
S=/verif/seeded/$1; shift
cd /repo && git diff --quiet || { echo "repo dirty"; exit 9; }
git apply $S/patch.diff || { echo "$S: patch does not apply to current /repo"; exit 8; }
for P in "$@"; do
  cd /verif && ./check $P --tier ${TIER:-quick} > /tmp/seedrun-$(basename $S)-$P.log 2>&1; RC=$?
  V=$(grep -c "^VIOLATION property=$P" /tmp/seedrun-$(basename $S)-$P.log)
  echo "$(basename $S) check=$P exit=$RC violation_lines=$V :: $(grep -m1 -A1 '^VIOLATION' /tmp/seedrun-$(basename $S)-$P.log | tail -1 | cut -c1-220)"
done
cd /repo && git checkout -q -- . && git status --short | head -3
