#!/bin/sh
# usage: mutate.sh <file under /repo> <python-replace-old> <python-replace-new> <PROP> [--only substr]
# hand-made sensitivity probe: apply a one-line textual mutation to /repo, run a quick check, revert.
F=$1; OLD=$2; NEW=$3; P=$4; shift 4
cd /repo && git diff --quiet || { echo "repo dirty"; exit 9; }
python3 - "$F" "$OLD" "$NEW" <<'PY' || { echo "mutation did not apply"; exit 8; }
import sys
f, old, new = sys.argv[1:4]
s = open(f).read()
assert s.count(old) >= 1, "pattern not found"
open(f, "w").write(s.replace(old, new, 1))
PY
cd /verif && ./check $P --tier quick "$@" 2>&1 | grep -E "^VIOLATION|^  instance|^INCONCLUSIVE|^$P " | cut -c1-260 | head -6
cd /repo && git checkout -q -- . && git status --short | head -2
