"""Writes seeded/<id>/meta.json from confirm.json + notes.md + the detection table below.

DETECT records, per seeded change, which of our checks reported it (filled in by hand from
tools/run_seed.sh runs; the same table is rendered into DESIGN.md)."""
import json
import os
import re
import sys

ROOT = os.path.dirname(os.path.dirname(os.path.abspath(__file__)))
DETECT = json.load(open(os.path.join(ROOT, "seeded", "detection.json")))


def section(text, *heads):
    for h in heads:
        m = re.search(r"^#+\s*" + h + r".*?\n(.*?)(?=^#+\s|\Z)", text, re.S | re.M | re.I)
        if m:
            return " ".join(m.group(1).split())[:900]
    return ""


for sid in sorted(os.listdir(os.path.join(ROOT, "seeded"))):
    d = os.path.join(ROOT, "seeded", sid)
    if not os.path.isdir(d):
        continue
    notes = open(os.path.join(d, "notes.md")).read() if os.path.exists(os.path.join(d, "notes.md")) else ""
    conf = json.load(open(os.path.join(d, "confirm.json"))) if os.path.exists(os.path.join(d, "confirm.json")) else {}
    title = notes.splitlines()[0].lstrip("# ").strip() if notes else ""
    meta = dict(
        id=sid,
        property=sid.split("-")[0],
        summary=title,
        change=section(notes, "Change"),
        needs_to_manifest=section(notes, "What is needed", "What it needs", "What it takes", "Needed"),
        confirmed_by=dict(
            what_i_ran=["git apply patch.diff in a scratch worktree of /repo (clean HEAD)",
                        "/venv/bin/python demo.py  (clean tree: exit 0; patched tree: exit != 0)",
                        "/venv/bin/python -m pytest -q -p no:cacheprovider --timeout=900 -n 6 dask_array  (patched tree)"],
            demo_exit_clean=conf.get("demo_exit_clean"), demo_exit_patched=conf.get("demo_exit_patched"),
            test_suite_with_patch=conf.get("tests")),
        author="independent sub-agent given only the property text and its own worktree",
        detection=DETECT.get(sid, {}),
    )
    json.dump(meta, open(os.path.join(d, "meta.json"), "w"), indent=1)
    print(sid, "->", meta["detection"] or "no detection run recorded")
