"""Instance runner: process pool, replay, known findings, evidence."""
from __future__ import annotations

import dataclasses
import importlib
import json
import multiprocessing as mp
import os
import random
import signal
import sys
import time
import traceback
from typing import Any, Callable, Optional

ROOT = os.path.dirname(os.path.dirname(os.path.abspath(__file__)))
EVIDENCE_DIR = os.path.join(ROOT, "evidence")
REPLAY_DIR = os.path.join(EVIDENCE_DIR, "replays")
KNOWN_FILE = os.path.join(ROOT, "known_findings.txt")


@dataclasses.dataclass
class Instance:
    name: str
    body: Callable[[Any], Any]
    params: dict = dataclasses.field(default_factory=dict)
    unit: str = ""
    api_replay: Optional[Callable[[dict], dict]] = None
    timeout_ms: int = 20000
    max_paths: int = 20000
    cap: int = 64
    wall_s: float = 300.0
    cost: float = 1.0  # scheduling hint (bigger first)


# --------------------------------------------------------------------------- known findings


def _api_replay(inst, values, rep):
    """the public-API replay; if the concrete replay of the cloned code ended in an exception and the public API raises
    the same exception type for the same input, that *is* the reproduction (anything else propagates: harness error)"""
    from . import core

    try:
        return inst.api_replay(values)
    except core._Abort:
        return dict(ok=True, detail="precondition of the API replay not met")
    except Exception as e:
        if rep.get("status") == "exception" and str(rep.get("error", "")).startswith(type(e).__name__):
            return dict(ok=False, detail=f"the public API raises {e!r}")
        raise


def load_known(prop):
    """-> list of dict(site=..., text=...) for 'known:' lines of this property"""
    out = []
    if not os.path.exists(KNOWN_FILE):
        return out
    for line in open(KNOWN_FILE):
        line = line.strip()
        if not line.startswith("known:"):
            continue
        fields = dict(tok.split("=", 1) for tok in line.split()[1:] if "=" in tok and tok.split("=", 1)[0] in ("property", "site"))
        if fields.get("property") == prop and "site" in fields:
            out.append(dict(site=fields["site"], text=line[len("known:"):].strip()))
    return out


# --------------------------------------------------------------------------- one instance


def _replay_concrete(inst, values):
    from .core import Concrete

    c = Concrete(values)
    res = c.run(inst.body)
    res["observations"] = c.observations
    res["tags"] = dict(c.tags)
    return res


def run_instance(modname, tier, idx, seed, nwit):
    from . import core

    t0 = time.time()
    mod = importlib.import_module(modname)
    inst = mod.instances(tier)[idx]
    known_sites = {k["site"] for k in load_known(mod.PROPERTY)}
    out = dict(name=inst.name, unit=inst.unit, params=inst.params, status="pass", findings=[],
               known_hits=[], error=None)
    E = core.Engine(timeout_ms=inst.timeout_ms, max_paths=inst.max_paths, concretize_cap=inst.cap,
                    wall_s=inst.wall_s)

    def on_finding(f):
        rep = _replay_concrete(inst, f["values"])
        f["replay"] = {k: v for k, v in rep.items() if k != "observations"}
        if rep["status"] not in ("violated", "exception"):
            return "not-reproduced"
        if inst.api_replay is not None:
            api = _api_replay(inst, f["values"], rep)
            f["api_replay"] = api
            if api.get("ok"):
                return "not-reproduced"
        # which site does the concrete failure attribute to?
        sites = set()
        if rep["status"] == "violated":
            sites = {x.get("site") for x in rep["failed"]}
        else:
            sites = {rep.get("site")}
        if f.get("site") is None and len(sites) == 1:
            f["site"] = next(iter(sites))
        if f.get("site") in known_sites and sites <= known_sites:
            f["known"] = True
            return "continue"
        return "stop"

    E.on_finding = on_finding

    def on_alarm(signum, frame):
        raise core.Unsupported(f"hard wall limit for instance {inst.name}")

    signal.signal(signal.SIGALRM, on_alarm)
    signal.alarm(int(inst.wall_s) + 120)
    try:
        E.explore(inst.body)
        for f in E.findings:
            if f.get("known"):
                if f["site"] not in out["known_hits"]:
                    out["known_hits"].append(f["site"])
                    out["findings"].append(f)
            else:
                out["findings"].append(f)
                out["status"] = "violation"
        if out["status"] == "pass" and E.stats["reached"] == 0 and not E.findings:
            raise core.HarnessError("vacuous instance: no feasible path reached the assertion")
        # engine/translator validation: witnesses of feasible paths replayed on the
        # un-shimmed code; symbolic observations under the model must equal concrete ones
        rnd = random.Random(seed * 7919 + idx)
        wit = list(E.witnesses)
        rnd.shuffle(wit)
        validated = 0
        for w in wit[:nwit]:
            rep = _replay_concrete(inst, w["values"])
            if rep["status"] == "precondition":
                raise core.HarnessError(f"witness does not satisfy the concrete precondition: {w['values']}")
            if rep["status"] in ("violated", "exception"):
                sites = {x.get("site") for x in rep.get("failed", [])} or {rep.get("site")}
                if not (sites <= known_sites) and out["status"] == "pass":
                    raise core.HarnessError(
                        f"concrete run fails on a witness the solver passed: {w['values']} -> {rep}")
                continue
            if w.get("tags", {}).get("set_order_choice"):
                # the path picked one member of a set among several the real code may pick by hash order (both are explored):
                # the concrete run must pass, its observations need not be those of this particular pick
                validated += 1
                continue
            if not core.same_observations([list(x) for x in w["observations"]], [list(x) for x in rep["observations"]]):
                raise core.HarnessError(
                    "symbolic/concrete mismatch on witness %r: symbolic %r vs concrete %r"
                    % (w["values"], w["observations"], rep["observations"]))
            validated += 1
        out["validated"] = validated
        out["witness"] = wit[0] if wit else None
    except core.Unsupported as ex:
        out["status"] = "inconclusive" if out["status"] != "violation" else out["status"]
        out["error"] = f"Unsupported: {ex}"
    except core.HarnessError as ex:
        out["status"] = "error"
        out["error"] = f"HarnessError: {ex}"
    except BaseException as ex:  # noqa
        out["status"] = "error"
        out["error"] = "crash: " + "".join(traceback.format_exception(type(ex), ex, ex.__traceback__))[-1500:]
    finally:
        signal.alarm(0)
    out["stats"] = {k: (round(v, 3) if isinstance(v, float) else v) for k, v in E.stats.items()}
    out["samples"] = E.samples
    out["wall_s"] = round(time.time() - t0, 3)
    return out


def _worker(args):
    try:
        return run_instance(*args)
    except BaseException as ex:  # noqa
        return dict(name=f"{args[0]}[{args[2]}]", unit="", params={}, status="error", findings=[],
                    known_hits=[], error="worker crash: " + repr(ex), stats={}, samples=[], wall_s=0.0)


# --------------------------------------------------------------------------- a property


def run_property(modname, tier="quick", seed=0, jobs=None, only=None, verbose=False):
    t0 = time.time()
    mod = importlib.import_module(modname)
    prop = mod.PROPERTY
    insts = mod.instances(tier)
    units = getattr(mod, "units", lambda: [])()  # also imports the repo modules before forking
    idxs = [i for i, x in enumerate(insts) if only is None or only in x.name]
    idxs.sort(key=lambda i: -insts[i].cost)
    nwit = 3 if tier == "quick" else 10
    jobs = jobs or min(16, os.cpu_count() or 4)
    args = [(modname, tier, i, seed, nwit) for i in idxs]
    results = []
    if jobs == 1 or len(args) <= 1:
        for a in args:
            results.append(_worker(a))
    else:
        ctx = mp.get_context("fork")
        with ctx.Pool(min(jobs, len(args)), maxtasksperchild=8) as pool:
            for r in pool.imap_unordered(_worker, args, chunksize=1):
                results.append(r)
                if verbose:
                    print(f"  [{r['status']:>12}] {r['name']}  paths={r['stats'].get('paths')} "
                          f"q={r['stats'].get('queries')} {r['wall_s']}s {r.get('error') or ''}", flush=True)
    results.sort(key=lambda r: r["name"])

    # ---- verdict lines
    os.makedirs(REPLAY_DIR, exist_ok=True)
    for fn in os.listdir(REPLAY_DIR):
        if fn.startswith(prop + "-"):
            os.remove(os.path.join(REPLAY_DIR, fn))
    known = load_known(prop)
    nviol = 0
    printed_known = set()
    for r in results:
        for f in r["findings"]:
            if f.get("known"):
                if f["site"] not in printed_known:
                    printed_known.add(f["site"])
                    txt = next((k["text"] for k in known if k["site"] == f["site"]), "")
                    print(f"KNOWN-FINDING: property={prop} site={f['site']} instance={r['name']} "
                          f"values={json.dumps(f['values'], sort_keys=True)} :: {txt}")
            else:
                nviol += 1
                path = os.path.join(REPLAY_DIR, f"{prop}-{nviol}.json")
                with open(path, "w") as fh:
                    json.dump(dict(property=prop, harness=modname, tier=tier, instance=r["name"],
                                   label=f["label"], site=f.get("site"), values=f["values"],
                                   replay=f.get("replay"), api_replay=f.get("api_replay"),
                                   where=f.get("where")), fh, indent=1, default=str)
                print(f"VIOLATION property={prop} replay={path}")
                print(f"  instance={r['name']} obligation={f['label']!r} site={f.get('site')} "
                      f"values={json.dumps(f['values'], sort_keys=True)}")
    bad = [r for r in results if r["status"] in ("inconclusive", "error")]
    for r in bad:
        print(f"INCONCLUSIVE property={prop} instance={r['name']} status={r['status']} {r['error']}")

    # ---- evidence
    tot = {}
    for r in results:
        for k, v in r["stats"].items():
            tot[k] = tot.get(k, 0) + v
    samples = []
    for r in results:
        if len(samples) >= 4:
            break
        if r["samples"]:
            s = dict(r["samples"][0])
            s["instance"] = r["name"]
            s["witness"] = r.get("witness")
            samples.append(s)
    if not samples:
        samples = [dict(instance=r["name"], witness=r.get("witness")) for r in results[:2]]
    ev = dict(
        property_id=prop,
        tier=tier,
        seed=seed,
        level="other",
        coverage=dict(
            explanation=("bounded symbolic execution of the repository's own function objects "
                         "(symx: z3 proxies, DART-style path enumeration) + SMT: for every feasible "
                         "path the negated obligation is decided by z3; unsat on all paths = holds for "
                         "all values of the symbolic inputs within the stated structural bounds"),
            evaluations=int(tot.get("queries", 0)),
            distinct_nontrivial=int(tot.get("nontrivial", 0)),
            rule=("evaluations = solver queries; distinct_nontrivial = obligations (one per feasible "
                  "path and label) whose verification condition did not simplify to true syntactically "
                  "and therefore went to the solver"),
            samples=samples,
            obligations=int(tot.get("obligations", 0)),
            discharged=int(tot.get("discharged", 0)),
            instances=len(results),
            instances_pass=sum(r["status"] == "pass" for r in results),
            instances_inconclusive=len(bad),
            paths=int(tot.get("paths", 0)),
            feasible_paths_reaching_assertion=int(tot.get("reached", 0)),
            solver_unknown=int(tot.get("unknown", 0)),
            concretisations=int(tot.get("concretisations", 0)),
            solver_s=round(tot.get("solver_s", 0.0), 2),
            witnesses_replayed_against_impl=sum(r.get("validated", 0) for r in results),
            vacuity="every instance needs >=1 feasible path that reaches its assertion with a "
                    "satisfiable path condition (witness model recorded); 0 such paths is an error",
            functions_encoded=units,
            stubs=getattr(mod, "STUBS", []),
            bounds=getattr(mod, "bounds", lambda t: {})(tier),
            known_findings_hit=sorted(printed_known),
            per_instance=[dict(name=r["name"], status=r["status"], unit=r["unit"], params=r["params"],
                               wall_s=r["wall_s"], **{k: r["stats"].get(k) for k in
                                                      ("paths", "reached", "queries", "obligations", "discharged",
                                                       "concretisations", "unknown")})
                          for r in results],
            trusted_base=["z3 4.x/5.x (z3-solver wheel)", "symx proxies and shims (validated per run by witness replay)",
                          "slice/range reference model (symx.oracle; selftest vs CPython)"],
        ),
        assumptions=getattr(mod, "ASSUMPTIONS", []),
        wall_s=round(time.time() - t0, 2),
        violations=nviol,
    )
    os.makedirs(EVIDENCE_DIR, exist_ok=True)
    with open(os.path.join(EVIDENCE_DIR, f"{prop}.json"), "w") as fh:
        json.dump(ev, fh, indent=1, default=str)
    print(f"{prop} [{tier}] instances={len(results)} pass={ev['coverage']['instances_pass']} "
          f"paths={ev['coverage']['paths']} obligations={ev['coverage']['obligations']} "
          f"discharged={ev['coverage']['discharged']} queries={ev['coverage']['evaluations']} "
          f"solver_s={ev['coverage']['solver_s']} known={sorted(printed_known)} violations={nviol} "
          f"inconclusive={len(bad)} wall={ev['wall_s']}s")
    if nviol:
        return 1
    if bad:
        return 2
    return 0


def replay_file(path):
    data = json.load(open(path))
    mod = importlib.import_module(data["harness"])
    inst = next(i for i in mod.instances(data.get("tier", "quick")) if i.name == data["instance"])
    rep = _replay_concrete(inst, data["values"])
    print("concrete replay on the un-shimmed repository code:", json.dumps(
        {k: v for k, v in rep.items() if k != "observations"}, default=str))
    print("observations:", rep.get("observations"))
    api = None
    if inst.api_replay is not None:
        api = _api_replay(inst, data["values"], rep)
        print("public-API replay:", api)
    bad = rep["status"] in ("violated", "exception") and (api is None or not api.get("ok"))
    if bad:
        print(f"VIOLATION property={data['property']} replay={path}")
        return 1
    print("not reproduced")
    return 0
