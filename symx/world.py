"""Re-binding of the repository's own function objects to shimmed globals.

For each module in the world a namespace ``dict(module.__dict__)`` is built at run time
from the imported /repo working tree, and every plain Python function defined in a world
module is re-created with ``types.FunctionType(f.__code__, ns, ...)`` -- the bytecode that
runs is the repository's; only names that resolve to C-level builtins are shadowed
(through a private ``__builtins__`` mapping), plus whatever stubs the harness lists in
``extra`` (recorders for constructors, a ``config`` stub, ...).
"""
from __future__ import annotations

import ast
import builtins
import functools
import hashlib
import importlib
import inspect
import math
import sys
import textwrap
import types

import numpy as np

from . import core
from .core import (SymBool, SymInt, SymRange, SymReal, SymSlice, _wrapb, _wrapi, _wrapr, _z,
                   is_symbolic, range_len)
import z3


# --------------------------------------------------------------------------- builtin shims


def sym_range(*a):
    if any(is_symbolic(x) for x in a):
        return SymRange(*a)
    return builtins.range(*a)


def sym_len(x):
    if isinstance(x, SymRange):
        return range_len(x.start, x.stop, x.step)
    return builtins.len(x)


def _ite_num(c, a, b):
    if any(isinstance(v, (SymReal, float)) for v in (a, b)):
        return _wrapr(z3.If(c, SymReal._r(a), SymReal._r(b)))
    return _wrapi(z3.If(c, _z(a), _z(b)))


def _fold(args, kw, pick_first_if, native):
    if len(args) == 1:
        from_set = isinstance(args[0], SymSet)
        args = tuple(args[0])
        if not args and "default" in kw:
            return kw["default"]
        if from_set and "key" in kw and len(args) > 1:
            # min/max over a *set* with a key: among members that tie on the key Python returns the first in the set's
            # (hash) iteration order, which this model does not know -- every tied member is explored (fork)
            keys = [kw["key"](a) for a in args]
            if all(isinstance(k, (int, float)) for k in keys):
                best = native(keys)
                tied = [a for a, k in zip(args, keys) if k == best]
                if len(tied) > 1:
                    from . import core as _core

                    E = _core._eng()

                    def tok(v):
                        if isinstance(v, (tuple, list)):
                            return "(" + ",".join(tok(x) for x in v) + ")"
                        return _z(v).sexpr() if isinstance(v, (SymInt, SymBool)) else repr(v)

                    # one decision per distinct set of tied members on a path (the same question asked again -- every
                    # optimizer pass asks it -- gets the same answer, as it does in a real run)
                    import hashlib as _h

                    name = "set_order:" + _h.sha1("|".join(sorted(tok(t) for t in tied)).encode()).hexdigest()[:12]
                    pick = E.int(name, 0, len(tied) - 1)
                    E.tag("set_order_choice", True)
                    order = sorted(range(len(tied)), key=lambda i: tok(tied[i]))
                    return tied[order[int(pick)]]
                return tied[0]
    if "key" in kw or not any(isinstance(a, (SymInt, SymReal)) for a in args) or not all(
        isinstance(a, (SymInt, SymReal, int, float)) or isinstance(a, (np.integer, np.floating)) for a in args
    ):
        kw2 = {k: v for k, v in kw.items() if k != "default" or len(args) == 0}
        return native(args, **kw2) if args or "default" in kw2 else native(args)
    out = args[0]
    for a in args[1:]:
        c = pick_first_if(a, out)
        if isinstance(c, SymBool):
            out = _ite_num(c.z, a, out)
        elif c:
            out = a
    return out


def sym_min(*args, **kw):
    """min() that merges with ite instead of forking (same value as Python's min)."""
    return _fold(args, kw, lambda a, out: a < out, builtins.min)


def sym_max(*args, **kw):
    return _fold(args, kw, lambda a, out: a > out, builtins.max)


class _IntMeta(type):
    def __instancecheck__(cls, obj):
        return isinstance(obj, builtins.int) or type(obj) is SymInt

    def __subclasscheck__(cls, sub):
        return issubclass(sub, builtins.int) or sub is SymInt


class sym_int(metaclass=_IntMeta):
    def __new__(cls, x=0, *a):
        if isinstance(x, SymInt):
            return x
        if isinstance(x, SymBool):
            return x._i()
        if isinstance(x, SymReal):  # truncation toward zero
            return x.__trunc__()
        return builtins.int(x, *a)


class _FloatMeta(type):
    def __instancecheck__(cls, obj):
        return isinstance(obj, builtins.float) or type(obj) is SymReal

    def __subclasscheck__(cls, sub):
        return issubclass(sub, builtins.float) or sub is SymReal


class sym_float(metaclass=_FloatMeta):
    def __new__(cls, x=0.0):
        if isinstance(x, SymReal):
            return x
        if isinstance(x, (SymInt, SymBool)):
            return SymReal._of(x)
        return builtins.float(x)


def sym_round(x, nd=None):
    if isinstance(x, (SymInt, SymReal)):
        return x.__round__(nd)
    return builtins.round(x) if nd is None else builtins.round(x, nd)


def sym_abs(x):
    return builtins.abs(x)


class SymMath:
    """math module proxy: exact on proxies where a theory exists, concretising otherwise."""

    def __getattr__(self, k):
        return getattr(math, k)

    @staticmethod
    def isnan(x):
        if isinstance(x, (SymInt, SymReal)):
            return False
        return math.isnan(x)

    @staticmethod
    def isinf(x):
        if isinstance(x, (SymInt, SymReal)):
            return False
        return math.isinf(x)

    @staticmethod
    def isfinite(x):
        if isinstance(x, (SymInt, SymReal)):
            return True
        return math.isfinite(x)

    @staticmethod
    def ceil(x):
        if isinstance(x, (SymInt, SymReal)):
            return x.__ceil__()
        return math.ceil(x)

    @staticmethod
    def floor(x):
        if isinstance(x, (SymInt, SymReal)):
            return x.__floor__()
        return math.floor(x)

    @staticmethod
    def prod(it, start=1):
        out = start
        for v in it:
            out = out * v
        return out

    @staticmethod
    def log(x, *a):
        return math.log(float(x), *a)

    @staticmethod
    def sqrt(x):
        return math.sqrt(float(x))


class _ShimIndexed(np.ndarray):
    """what np.empty gives cloned code: `slice(...)` there builds the shim's slice objects, which a NumPy array only
    understands once they are turned back into builtin slices (their members are concrete here)"""

    def __getitem__(self, ix):
        from .core import SymSlice

        def conv(i):
            if type(i) is SymSlice:
                return builtins.slice(*[None if v is None else int(v) for v in (i.start, i.stop, i.step)])
            return i

        ix = tuple(conv(i) for i in ix) if isinstance(ix, tuple) else conv(ix)
        out = np.ndarray.__getitem__(self, ix)
        return out.view(np.ndarray) if isinstance(out, np.ndarray) else out


class _ShimScalar(np.float64):
    def astype(self, t, *a, **k):
        name = getattr(t, "__name__", "")
        if name in ("sym_int", "sym_float"):
            t = builtins.int if name == "sym_int" else builtins.float
        return np.float64(self).astype(t, *a, **k)


class SymNp:
    """numpy proxy for cloned module globals: a handful of scalar helpers understand
    proxies; everything else is NumPy."""

    def __init__(self, **over):
        self._over = over

    def __getattr__(self, k):
        if k in self._over:
            return self._over[k]
        return getattr(np, k)

    @staticmethod
    def median(x, *a, **k):
        """np.median of concrete numbers; the result's .astype(int) / .astype(float) understands the shim's int / float
        (cloned code spells the dtype with the names `int` / `float`, which are shim callables there)"""
        if isinstance(x, (tuple, list)) and any(isinstance(v, (SymInt, SymReal)) for v in x):
            return np.median(x, *a, **k)  # (object arithmetic on the proxies, as without this shim)
        return _ShimScalar(np.median(x, *a, **k))

    @staticmethod
    def empty(*a, **k):
        out = np.empty(*a, **k)
        return out.view(_ShimIndexed) if type(out) is np.ndarray and out.dtype != object else out

    @staticmethod
    def isnan(x):
        if isinstance(x, (SymInt, SymReal)):
            return False
        if isinstance(x, (tuple, list)) and any(isinstance(v, (SymInt, SymReal)) for v in x):
            return np.array([False if isinstance(v, (SymInt, SymReal)) else bool(np.isnan(v)) for v in x])
        if isinstance(x, np.ndarray) and x.dtype == object:
            return np.array([False if isinstance(v, (SymInt, SymReal)) else bool(np.isnan(v)) for v in x.ravel()]).reshape(x.shape)
        return np.isnan(x)

    @staticmethod
    def ceil(x):
        if isinstance(x, (SymInt, SymReal)):
            return x.__ceil__()
        return np.ceil(x)

    @staticmethod
    def floor(x):
        if isinstance(x, (SymInt, SymReal)):
            return x.__floor__()
        return np.floor(x)

    @staticmethod
    def log(x):
        if isinstance(x, (SymInt, SymReal)):
            x = float(x)
        return np.log(x)

    @staticmethod
    def sqrt(x):
        if isinstance(x, (SymInt, SymReal)):
            x = float(x)
        return np.sqrt(x)

    @staticmethod
    def prod(x, *a, **k):
        if isinstance(x, (tuple, list)) and any(isinstance(v, (SymInt, SymReal)) for v in x) and not a and not k:
            out = 1
            for v in x:
                out = out * v
            return out
        return np.prod(x, *a, **k)

    @staticmethod
    def array(x, *a, **k):
        from .sarr import SArr

        if isinstance(x, SArr):  # np.array(block, copy=True): an independent array with the same content
            return SArr(x.shape, x._at, x.dtype, x.log, x.kind, x.struct)
        return np.array(x, *a, **k)

    @staticmethod
    def asarray(x, *a, **k):
        from .sarr import SArr

        return x if isinstance(x, SArr) else np.asarray(x, *a, **k)

    @staticmethod
    def asanyarray(x, *a, **k):
        from .sarr import SArr

        return x if isinstance(x, SArr) else np.asanyarray(x, *a, **k)

    @staticmethod
    def max(x, *a, **k):
        if isinstance(x, (tuple, list)) and any(isinstance(v, (SymInt, SymReal)) for v in x) and not a and not k:
            return sym_max(*x)
        return np.max(x, *a, **k)

    @staticmethod
    def min(x, *a, **k):
        if isinstance(x, (tuple, list)) and any(isinstance(v, (SymInt, SymReal)) for v in x) and not a and not k:
            return sym_min(*x)
        return np.min(x, *a, **k)

    amax, amin = max, min

    @staticmethod
    def cumsum(x, *a, **k):
        if isinstance(x, (tuple, list)) and any(isinstance(v, (SymInt, SymReal)) for v in x) and not a and not k:
            out, s = [], 0
            for v in x:
                s = s + v
                out.append(s)
            return out
        return np.cumsum(x, *a, **k)


class ConcNp:
    """numpy as seen by cloned code in *concrete* replays of harnesses that execute graphs on symbolic-array
    objects (with concrete sizes): only the array-coercion entry points know about SArr"""

    array = staticmethod(SymNp.array)
    asarray = staticmethod(SymNp.asarray)
    asanyarray = staticmethod(SymNp.asanyarray)

    def __getattr__(self, k):
        return getattr(np, k)


class SymSet:
    """set() over values that may be symbolic: membership and de-duplication by ``==``
    (forks) instead of hashing (which would concretise every element).  Iteration order
    is insertion order; callers that depend on order sort anyway (order of a real set is
    arbitrary, so code relying on it would be wrong already)."""

    def __init__(self, items=()):
        self.items = []
        for x in items:
            self.add(x)

    def add(self, x):
        if x not in self:
            self.items.append(x)

    def __contains__(self, x):
        for y in self.items:
            if x is y or x == y:
                return True
        return False

    def __iter__(self):
        return iter(list(self.items))

    def __len__(self):
        return len(self.items)

    def __bool__(self):
        return bool(self.items)

    def pop(self):
        return self.items.pop()

    def __or__(self, o):
        return SymSet(list(self.items) + list(o))

    def __and__(self, o):
        o = _ss(o)
        return SymSet([x for x in self.items if x in o])

    def __sub__(self, o):
        o = _ss(o)
        return SymSet([x for x in self.items if x not in o])

    def __eq__(self, o):
        if not isinstance(o, (builtins.set, builtins.frozenset, SymSet)):
            return False
        o = _ss(o)
        return len(self) == len(o) and all(x in o for x in self.items)

    def __ne__(self, o):
        return not self.__eq__(o)

    __hash__ = None


    def issubset(self, o):
        o = _ss(o)
        return all(x in o for x in self.items)

    def issuperset(self, o):
        return all(x in self for x in o)

    def union(self, *os):
        out = SymSet(self.items)
        for o in os:
            for x in o:
                out.add(x)
        return out

    def intersection(self, o):
        return self & o

    def difference(self, o):
        return self - o

    def discard(self, x):
        self.items = [y for y in self.items if not (x is y or x == y)]

    def remove(self, x):
        if x not in self:
            raise KeyError(x)
        self.discard(x)

    def update(self, o):
        for x in o:
            self.add(x)

    def copy(self):
        return SymSet(self.items)

    def __le__(self, o):
        return self.issubset(o)

    def __ge__(self, o):
        return self.issuperset(o)

    def __rsub__(self, o):
        return SymSet([x for x in o if x not in self])

    def __ror__(self, o):
        return SymSet(list(o) + list(self.items))

    def __rand__(self, o):
        return SymSet([x for x in o if x in self])


def _ss(o):
    return o if isinstance(o, SymSet) else SymSet(o)


def _has_sym(v):
    if isinstance(v, (SymInt, SymReal, SymBool, SymSlice)):
        return True
    if isinstance(v, (tuple, list)):
        return any(_has_sym(u) for u in v)
    return False


class SymDict(dict):
    """dict whose keys may contain symbolic values: such entries live in a side list and are
    found by ``==`` (forking) instead of hashing (which would concretise).  Concrete keys use the
    ordinary dict storage; a lookup scans both (a symbolic key may equal a concrete one)."""

    def __init__(self, *a, **k):
        dict.__init__(self)
        self._sym = []  # [key, value] pairs with symbolic keys, insertion order
        if a:
            src = a[0]
            for kk, vv in (src.items() if hasattr(src, "items") else src):
                self[kk] = vv
        for kk, vv in k.items():
            self[kk] = vv

    def _find(self, key):
        """-> ('c', key) | ('s', index) | None"""
        ksym = _has_sym(key)
        if not ksym:
            try:
                if dict.__contains__(self, key):
                    return ("c", key)
            except TypeError:
                pass
        else:
            for ck in dict.keys(self):
                if type(ck) is type(key) or isinstance(ck, (int, float, tuple)):
                    if ck == key:
                        return ("c", ck)
        for i, (sk, _v) in enumerate(self._sym):
            if sk is key or sk == key:
                return ("s", i)
        return None

    def __contains__(self, key):
        return self._find(key) is not None

    def __getitem__(self, key):
        f = self._find(key)
        if f is None:
            raise KeyError(key)
        return dict.__getitem__(self, f[1]) if f[0] == "c" else self._sym[f[1]][1]

    def get(self, key, default=None):
        f = self._find(key)
        if f is None:
            return default
        return dict.__getitem__(self, f[1]) if f[0] == "c" else self._sym[f[1]][1]

    def __setitem__(self, key, value):
        f = self._find(key)
        if f is not None:
            if f[0] == "c":
                dict.__setitem__(self, f[1], value)
            else:
                self._sym[f[1]][1] = value
        elif _has_sym(key):
            self._sym.append([key, value])
        else:
            dict.__setitem__(self, key, value)

    def setdefault(self, key, default=None):
        f = self._find(key)
        if f is None:
            self[key] = default
            return default
        return dict.__getitem__(self, f[1]) if f[0] == "c" else self._sym[f[1]][1]

    def pop(self, key, *d):
        f = self._find(key)
        if f is None:
            if d:
                return d[0]
            raise KeyError(key)
        if f[0] == "c":
            return dict.pop(self, f[1])
        return self._sym.pop(f[1])[1]

    def __delitem__(self, key):
        self.pop(key)

    def __len__(self):
        return dict.__len__(self) + len(self._sym)

    def __bool__(self):
        return len(self) > 0

    def __iter__(self):
        return iter(self.keys())

    def keys(self):
        return list(dict.keys(self)) + [k for k, _ in self._sym]

    def values(self):
        return list(dict.values(self)) + [v for _, v in self._sym]

    def items(self):
        return list(dict.items(self)) + [(k, v) for k, v in self._sym]

    def update(self, *a, **k):
        for kk, vv in SymDict(*a, **k).items():
            self[kk] = vv

    def copy(self):
        return SymDict(self.items())

    def __eq__(self, o):
        if not isinstance(o, dict) or len(o) != len(self):
            return False
        return all(k in o and o[k] == v for k, v in self.items())

    def __ne__(self, o):
        return not self.__eq__(o)

    def __repr__(self):
        return "SymDict(%r)" % (self.items(),)


class _DictMeta(type):
    def __instancecheck__(cls, obj):
        return isinstance(obj, builtins.dict)

    def __subclasscheck__(cls, sub):
        return issubclass(sub, builtins.dict)


class sym_dict(metaclass=_DictMeta):
    """``dict`` inside desugared cloned code"""

    fromkeys = builtins.dict.fromkeys

    def __new__(cls, *a, **k):
        return SymDict(*a, **k)


class _Desugar(ast.NodeTransformer):
    """set/dict displays and comprehensions -> calls of the (shimmed) builtins, so that
    collections of symbolic values are equality-based instead of hashing (= concretising)."""

    def visit_SetComp(self, node):
        self.generic_visit(node)
        return ast.copy_location(ast.Call(ast.Name("set", ast.Load()), [ast.ListComp(node.elt, node.generators)], []), node)

    def visit_Set(self, node):
        self.generic_visit(node)
        return ast.copy_location(ast.Call(ast.Name("set", ast.Load()), [ast.List(node.elts, ast.Load())], []), node)

    def visit_DictComp(self, node):
        self.generic_visit(node)
        pair = ast.Tuple([node.key, node.value], ast.Load())
        return ast.copy_location(ast.Call(ast.Name("dict", ast.Load()), [ast.ListComp(pair, node.generators)], []), node)

    def visit_Dict(self, node):
        self.generic_visit(node)
        if any(k is None for k in node.keys):
            return node
        pairs = [ast.Tuple([k, v], ast.Load()) for k, v in zip(node.keys, node.values)]
        return ast.copy_location(ast.Call(ast.Name("dict", ast.Load()), [ast.List(pairs, ast.Load())], []), node)


def desugared_code(f):
    """code object of f recompiled from its *current source* with set/dict displays desugared;
    None when that is not possible (closures, lambdas, unavailable source)."""
    if f.__closure__ or f.__name__ == "<lambda>":
        return None
    try:
        src = textwrap.dedent(inspect.getsource(f))
        tree = ast.parse(src)
    except (OSError, TypeError, SyntaxError, IndentationError):
        return None
    fn = tree.body[0]
    if not isinstance(fn, (ast.FunctionDef,)) or fn.name != f.__name__:
        return None
    fn.decorator_list = []
    for a in list(fn.args.defaults) + [d for d in fn.args.kw_defaults if d is not None]:
        pass
    # defaults/annotations are taken from the original function object, not re-evaluated
    fn.args.defaults = [ast.Constant(None) for _ in fn.args.defaults]
    fn.args.kw_defaults = [None if d is None else ast.Constant(None) for d in fn.args.kw_defaults]
    fn.returns = None
    for a in fn.args.args + fn.args.kwonlyargs + fn.args.posonlyargs + [x for x in (fn.args.vararg, fn.args.kwarg) if x]:
        a.annotation = None
    tree = ast.fix_missing_locations(_Desugar().visit(tree))
    ast.increment_lineno(tree, f.__code__.co_firstlineno - 1)
    try:
        mod_code = compile(tree, f.__code__.co_filename, "exec")
    except (SyntaxError, ValueError):
        return None
    for c in mod_code.co_consts:
        if isinstance(c, types.CodeType) and c.co_name == f.__name__:
            if c.co_freevars:
                return None
            return c
    return None


class _SetMeta(type):
    def __instancecheck__(cls, obj):
        return isinstance(obj, (builtins.set, SymSet))


class sym_set(metaclass=_SetMeta):
    def __new__(cls, it=()):
        it = list(it)
        if any(isinstance(v, (SymInt, SymReal)) or (isinstance(v, tuple) and any(isinstance(u, (SymInt, SymReal)) for u in v))
               for v in it):
            return SymSet(it)
        return builtins.set(it)


def sym_is_integer(i):
    """dask.utils.is_integer on proxies (same definition: Integral, or a float that is whole)"""
    if isinstance(i, SymInt):
        return True
    if isinstance(i, SymReal):
        return i.is_integer()
    import dask.utils

    return dask.utils.is_integer(i)


def pure_cached_cumsum(seq, initial_zero=False):
    """dask.utils.cached_cumsum without the identity/hash cache (same values)."""
    out = []
    s = 0
    if initial_zero:
        out.append(0)
    first = True
    for v in seq:
        s = v if (first and not initial_zero) else s + v
        first = False
        out.append(s)
    return tuple(out)


SHIM_BUILTINS = dict(slice=SymSlice, range=sym_range, len=sym_len, min=sym_min, max=sym_max,
                     int=sym_int, float=sym_float, round=sym_round, set=sym_set)
SHIM_LIST = [
    "slice -> SymSlice (symbolic .indices = model of PySlice_AdjustIndices)",
    "range/len -> symbolic range length",
    "min/max -> ite merge instead of fork",
    "int/float -> identity/trunc on proxies, isinstance-compatible",
    "round -> half-even on exact reals",
    "set -> equality-based SymSet when elements are symbolic (no hashing)",
    "math.isnan/ceil/floor/prod on proxies; math.log/sqrt concretise",
    "np.isnan/ceil/floor/prod/cumsum on proxies; np.log/sqrt concretise",
    "dask.utils.cached_cumsum -> same values without the identity/hash cache",
    "dask.utils.is_integer -> same definition on proxies",
]


# --------------------------------------------------------------------------- the world


class _ModView:
    """What ``import x`` / ``from x import y`` sees inside cloned code for world modules."""

    def __init__(self, world, name):
        object.__setattr__(self, "_w", world)
        object.__setattr__(self, "_n", name)

    def __getattr__(self, k):
        ns = self._w.ns[self._n]
        if k in ns:
            return ns[k]
        # sub-module access such as dask_array._new_collection
        full = f"{self._n}.{k}"
        if full in self._w.ns:
            return _ModView(self._w, full)
        return getattr(sys.modules[self._n], k)


class World:
    def __init__(self, modules, symbolic=True, extra=None, extra_by_module=None, nodes=False, desugar=(), clone_classes=()):
        """modules: module names whose functions are cloned.  extra: names shadowed in every
        cloned namespace (stubs/recorders) -- also seen by function-local imports.
        extra_by_module: {module: {name: obj}}.  nodes: expression classes resolve to
        symx.nodes class proxies (symbolic nodes instead of content-hashed singletons)."""
        self.symbolic = symbolic
        self.space = None
        self.desugar = set(desugar) if symbolic else set()  # module names whose functions are recompiled desugared
        self.names = list(modules)
        self.mods = {n: importlib.import_module(n) for n in self.names}
        self.extra = dict(extra or {})
        self.extra_by_module = {k: dict(v) for k, v in (extra_by_module or {}).items()}
        self.ns = {}
        self._clones = {}
        bi = dict(builtins.__dict__)
        if symbolic:
            bi.update(SHIM_BUILTINS)
            if self.desugar:
                bi["dict"] = sym_dict
        bi["__import__"] = self._import
        self.builtins = bi
        if nodes:
            from dask._expr import Expr
            from .nodes import NodeSpace

            self.space = NodeSpace(self, Expr)
            bi["type"] = self.space.sym_type()
        for n, m in self.mods.items():
            ns = dict(m.__dict__)
            ns["__builtins__"] = bi
            self.ns[n] = ns
        for n, ns in self.ns.items():
            for k, v in list(ns.items()):
                if isinstance(v, types.ModuleType) and v.__name__ in self.ns:
                    # `from dask_array import _chunk as chunk` at module level: attribute access must reach the clones
                    ns[k] = _ModView(self, v.__name__)
                    continue
                c = self._clone(v)
                if c is not v:
                    ns[k] = c
        for n, ns in self.ns.items():
            if symbolic:
                if ns.get("math") is math:
                    ns["math"] = SymMath()
                if ns.get("np") is np:
                    ns["np"] = SymNp()
                if "cached_cumsum" in ns:
                    ns["cached_cumsum"] = pure_cached_cumsum
                if "is_integer" in ns and getattr(ns["is_integer"], "__module__", "") == "dask.utils":
                    ns["is_integer"] = sym_is_integer
            if self.space is not None and not symbolic and ns.get("np") is np:
                ns["np"] = ConcNp()
            if self.space is not None:
                from .nodes import sym_tokenize

                for k, v in list(ns.items()):
                    if self.space.is_expr_class(v):
                        ns[k] = self.space.proxy(v)
                for k in ("tokenize", "_tokenize_deterministic"):
                    if k in ns:
                        ns[k] = sym_tokenize
                from .nodes import sym_dumps, sym_hash_hex

                if "_dumps5" in ns:
                    ns["_dumps5"] = sym_dumps
                if "hash_buffer_hex" in ns:
                    ns["hash_buffer_hex"] = sym_hash_hex
            ns.update(self.extra)
            ns.update(self.extra_by_module.get(n, {}))
        # ordinary (non-expression) classes whose methods must run the cloned code, e.g. the Array collection
        self.cloned_classes = {}
        if clone_classes:
            from .nodes import clone_class

            for modname, cname in clone_classes:
                real = getattr(importlib.import_module(modname), cname)
                sub = clone_class(self, real)
                self.cloned_classes[real] = sub
                for ns in self.ns.values():
                    for k, v in list(ns.items()):
                        if v is real:
                            ns[k] = sub

    # -- cloning
    def _clone(self, v):
        if isinstance(v, functools._lru_cache_wrapper) and getattr(v, "__wrapped__", None) is not None:
            inner = v.__wrapped__
            if isinstance(inner, types.FunctionType) and inner.__module__ in self.ns:
                return self._clone(inner)
            return v
        if isinstance(v, functools.partial) and isinstance(v.func, types.FunctionType) and v.func.__module__ in self.ns:
            # module-level partials of repository functions (ones = partial(wrap_func_shape_as_first_arg, klass=Ones)): clone the
            # function and hand expression classes bound as arguments over as their proxies
            f = self._clone(v.func)

            def conv(a):
                return self.space.proxy(a) if self.space is not None and self.space.is_expr_class(a) else a

            if f is not v.func or any(conv(a) is not a for a in list(v.args) + list(v.keywords.values())):
                return functools.partial(f, *[conv(a) for a in v.args], **{k: conv(a) for k, a in v.keywords.items()})
            return v
        if not isinstance(v, types.FunctionType):
            return v
        # the module a function's globals belong to (functools.wraps copies __module__ from the wrapped function, so a
        # decorator's wrapper claims the decorated function's module while its code lives in the decorator's)
        home = v.__globals__.get("__name__")
        if home not in self.ns or v.__globals__ is not self.mods[home].__dict__:
            return v
        key = id(v)
        if key not in self._clones:
            code = v.__code__
            if home in self.desugar:
                code = desugared_code(v) or code
            dflt, kwd = v.__defaults__, v.__kwdefaults__
            if self.space is not None:
                # an expression class bound as a default argument (reduction_cls=Reduction) is handed over as its proxy
                conv = lambda a: self.space.proxy(a) if self.space.is_expr_class(a) else a  # noqa: E731
                dflt = tuple(conv(a) for a in dflt) if dflt else dflt
                kwd = {k: conv(a) for k, a in kwd.items()} if kwd else kwd
            closure = v.__closure__
            if closure:
                # a decorator's wrapper closes over the function it wraps (check_if_handled_given_other(__sub__) ...): the wrapped
                # function is handed over as its clone, otherwise the wrapper would run the un-shimmed original
                cells = []
                for cell in closure:
                    try:
                        content = cell.cell_contents
                    except ValueError:
                        cells.append(cell)
                        continue
                    c = self._clone(content) if isinstance(content, (types.FunctionType, functools.partial)) else content
                    cells.append(types.CellType(c) if c is not content else cell)
                closure = tuple(cells)
            f = types.FunctionType(code, self.ns[home], v.__name__, dflt, closure)
            f.__kwdefaults__ = kwd
            f.__qualname__ = v.__qualname__
            f.__doc__ = v.__doc__
            f.__dict__.update(v.__dict__)
            f.__symx_clone__ = True
            self._clones[key] = (v, f)
        return self._clones[key][1]

    def _import(self, name, globals=None, locals=None, fromlist=(), level=0):
        if level:
            # `from ._sibling import f` inside a cloned function: resolve against the module's package and treat it like the
            # absolute form, so that cloned siblings are used
            pkg = (globals or {}).get("__package__") or ((globals or {}).get("__name__", "").rpartition(".")[0])
            try:
                import importlib.util

                absname = importlib.util.resolve_name("." * level + (name or ""), pkg)
            except Exception:
                return builtins.__import__(name, globals, locals, fromlist, level)
            if not fromlist or not name:
                return builtins.__import__(name, globals, locals, fromlist, level)
            name, level = absname, 0
        if fromlist:
            if name in self.ns:
                return _ModView(self, name)
            mod = builtins.__import__(name, globals, locals, fromlist, level)
            over = {k: self.extra[k] for k in fromlist if k in self.extra}
            for k in fromlist:
                if k not in over and isinstance(getattr(mod, k, None), type) and getattr(mod, k) in getattr(self, "cloned_classes", {}):
                    over[k] = self.cloned_classes[getattr(mod, k)]
            for k in fromlist:
                # a name re-exported by a package that is not itself cloned (from dask_array.creation import ones): use the clone
                # of the function it denotes
                if k not in over and hasattr(mod, k):
                    c = self._clone(getattr(mod, k))
                    if c is not getattr(mod, k):
                        over[k] = c
            if self.space is not None:
                from .nodes import sym_tokenize

                for k in fromlist:
                    if k in over or not hasattr(mod, k):
                        continue
                    v = getattr(mod, k)
                    if self.space.is_expr_class(v):
                        over[k] = self.space.proxy(v)
                    elif k in ("tokenize", "_tokenize_deterministic"):
                        over[k] = sym_tokenize
            if over:
                view = types.SimpleNamespace(**{k: getattr(mod, k) for k in fromlist if hasattr(mod, k)})
                for k, v in over.items():
                    setattr(view, k, v)
                return view
            return mod
        return builtins.__import__(name, globals, locals, fromlist, level)

    # -- access
    def fn(self, module, name):
        return self.ns[module][name]

    def clone_of(self, module, name):
        """The clone of the repository's own function, even when ``extra`` shadows its name
        (for wrappers that record calls and delegate)."""
        return self._clone(self.mods[module].__dict__[name])

    def method(self, cls, name):
        """Clone of a method / property getter / cached_property body of a repo class."""
        f = None
        for klass in cls.__mro__:
            if name in klass.__dict__:
                f = klass.__dict__[name]
                break
        if f is None:
            raise AttributeError(name)
        if isinstance(f, functools.cached_property):
            f = f.func
        elif isinstance(f, property):
            f = f.fget
        elif isinstance(f, (staticmethod, classmethod)):
            f = f.__func__
        if hasattr(f, "func") and not isinstance(f, types.FunctionType):  # dask cached_property
            f = f.func
        mod = f.__module__
        if mod not in self.ns:
            raise KeyError(f"{mod} is not in the world")
        g = types.FunctionType(f.__code__, self.ns[mod], f.__name__, f.__defaults__, f.__closure__)
        g.__kwdefaults__ = f.__kwdefaults__
        return g

    def source_hashes(self):
        """sha256 of the current source of every cloned function (evidence: the encoding is
        regenerated from the working tree)."""
        out = {}
        for _k, (orig, _c) in self._clones.items():
            try:
                src = inspect.getsource(orig)
            except (OSError, TypeError):
                continue
            out[f"{orig.__module__}.{orig.__qualname__}"] = hashlib.sha256(src.encode()).hexdigest()[:16]
        return out


def func_hash(f):
    if isinstance(f, functools.cached_property):
        f = f.func
    elif isinstance(f, property):
        f = f.fget
    elif isinstance(f, (staticmethod, classmethod)):
        f = f.__func__
    if hasattr(f, "func") and not isinstance(f, types.FunctionType):
        f = f.func
    try:
        src = inspect.getsource(f)
        file = inspect.getsourcefile(f)
    except (OSError, TypeError):
        return dict(name=getattr(f, "__qualname__", repr(f)), sha256=None)
    return dict(name=f"{f.__module__}.{f.__qualname__}", file=file,
                sha256=hashlib.sha256(src.encode()).hexdigest())
