"""Validation of the trusted base (run by setup.sh): the slice/range reference model against
CPython, and the proxies' floor-division / modulo / ceil / round encodings against Python."""
from __future__ import annotations

import itertools
import math
import sys

import z3

from . import core
from .core import Engine, SymInt, range_len, slice_indices


def concrete_model():
    n_checked = 0
    vals = [None] + list(range(-8, 9))
    for n in range(0, 7):
        for step in (None, -3, -2, -1, 1, 2, 3):
            for a, b in itertools.product(vals, vals):
                got = slice_indices(a, b, step, n)
                want = slice(a, b, step).indices(n)
                assert tuple(got) == tuple(want), (a, b, step, n, got, want)
                assert range_len(*got) == len(range(*want)), (a, b, step, n)
                n_checked += 1
    return n_checked


def symbolic_arith():
    """For all a in [-12,12] and concrete b: proxies' //, %, divmod, ceil(a/b), round(a/b),
    int(a/b) equal Python's -- decided by the solver (one query per b and operator)."""
    checked = 0
    for b in (-5, -3, -2, -1, 1, 2, 3, 4, 7):
        table = {a: (a // b, a % b, math.ceil(a / b), math.floor(a / b), int(a / b), round(a / b)) for a in range(-12, 13)}

        def body(E, b=b, table=table):
            a = E.int("a", -12, 12)
            q, r = divmod(a, b)
            real = a / b
            got = (a // b, a % b, math.ceil(real), math.floor(real), real.__trunc__(), round(real))
            conj = []
            for av, want in table.items():
                for g, w in zip(got + (q, r), want + (want[0], want[1])):
                    conj.append(z3.Implies(a.z == av, core._z(g) == w))
            return z3.And(*conj)

        e = Engine(timeout_ms=20000)
        f = e.explore(body)
        assert not f, (b, f)
        assert e.stats["discharged"] >= 1
        checked += 1

    # symbolic divisor
    def body2(E):
        a = E.int("a", -9, 9)
        b = E.int("b", -4, 4)
        E.assume(b != 0)
        q = a // b
        r = a % b
        conj = []
        for av in range(-9, 10):
            for bv in (-4, -3, -2, -1, 1, 2, 3, 4):
                conj.append(z3.Implies(z3.And(a.z == av, b.z == bv), z3.And(core._z(q) == av // bv, core._z(r) == av % bv)))
        return z3.And(*conj)

    e = Engine(timeout_ms=20000)
    assert not e.explore(body2)
    return checked + 1


def symbolic_slice_model():
    """The ite-merged SymSlice.indices / range_len terms equal CPython's slice.indices and
    len(range()) for every n in 0..4, start/stop in -6..6 (or None): one solver query per
    (None-pattern, step)."""
    total = 0
    for step in (None, 1, 2, 3, -1, -2, -3):
        for ps in (0, 1):
            for pe in (0, 1):
                def body(E, step=step, ps=ps, pe=pe):
                    n = E.int("n", 0, 4)
                    a = E.int("a", -6, 6) if ps else None
                    b = E.int("b", -6, 6) if pe else None
                    t = E.slice(a, b, step).indices(n)
                    ln = range_len(*t)
                    E.observe("t", t)
                    conj = []
                    for nv in range(0, 5):
                        for av in (range(-6, 7) if ps else [None]):
                            for bv in (range(-6, 7) if pe else [None]):
                                want = slice(av, bv, step).indices(nv)
                                hyp = [n.z == nv] + ([a.z == av] if ps else []) + ([b.z == bv] if pe else [])
                                conj.append(z3.Implies(z3.And(*hyp), z3.And(
                                    core._z(t[0]) == want[0], core._z(t[1]) == want[1], core._z(ln) == len(range(*want)))))
                    return z3.And(*conj)

                e = Engine()
                assert not e.explore(body), (step, ps, pe)
                assert e.stats["discharged"] >= 1
                total += 1
    return total


def main():
    a = concrete_model()
    b = symbolic_arith()
    c = symbolic_slice_model()
    print(f"symx selftest ok: slice model vs CPython {a} cases; arithmetic encodings {b} solver-checked tables; "
          f"merged slice model: {c} solver-checked tables")
    return 0


if __name__ == "__main__":
    sys.exit(main())
