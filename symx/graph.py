"""Execution of task graphs emitted by the repository's ``_layer`` methods on symbolic
arrays (sarr.SArr), plus structural checks of a layer (key grid, closure, block shapes).

Tasks are dask ``Task`` / ``Alias`` / ``DataNode`` objects or legacy tuples.  The block
kernels they name are NumPy-level functions; a handful are interpreted by name with their
NumPy meaning on SArr (``getitem``, ``getter*``, ``concatenate3``); everything else is called
as is and dispatches through SArr's NumPy protocols / operators.  An unknown kernel makes the
instance inconclusive (Unsupported), never a pass.
"""
from __future__ import annotations

import itertools

import numpy as np

from . import core
from .sarr import SArr, assemble, concatenate_nested


def _is_key(x, dsk):
    if isinstance(x, str):
        return x in dsk
    if isinstance(x, tuple) and x and isinstance(x[0], str) and all(type(i) in (int, str, float) for i in x[1:]):
        return x in dsk
    return False


class _Value:
    """an already computed value bound to a key of an inner (fused) graph"""

    def __init__(self, v):
        self.v = v


class Runner:
    def __init__(self, dsk, kernels=None):
        self.dsk = dsk
        self.cache = {}
        self.active = set()
        self.kernels = dict(KERNELS)
        if kernels:
            self.kernels.update(kernels)
        self.refs = []  # (from key, to key) dependency edges seen while executing

    def get(self, key, frm=None):
        if frm is not None:
            self.refs.append((frm, key))
        if key in self.cache:
            return self.cache[key]
        if key not in self.dsk:
            raise KeyError(key)
        if key in self.active:
            raise core.HarnessError(f"dependency cycle through {key!r}")
        self.active.add(key)
        try:
            v = self._eval(self.dsk[key], key, top=True)
        finally:
            self.active.discard(key)
        self.cache[key] = v
        return v

    def _apply(self, func, args, kwargs):
        import functools

        if isinstance(func, functools.partial):
            base = func.func
            if getattr(base, "__symx_clone__", False) or getattr(base, "__symx_kernel__", False) or getattr(base, "__name__", None) in self.kernels or \
                    (getattr(base, "__module__", "") or "").startswith(("numpy", "symx.")):
                kw = dict(func.keywords)
                kw.update(kwargs)
                return self._apply(base, list(func.args) + list(args), kw)
        if type(func).__name__ == "Compose" and hasattr(func, "first") and hasattr(func, "funcs"):
            out = self._apply(func.first, args, kwargs)
            for f in func.funcs:
                out = self._apply(f, [out], {})
            return out
        name = getattr(func, "__name__", None)
        if name == "apply" and (getattr(func, "__module__", "") or "").startswith("dask"):
            f, a = args[0], (args[1] if len(args) > 1 else ())
            kw = args[2] if len(args) > 2 else {}
            return self._apply(f, list(a), dict(kw or {}))
        k = self.kernels.get(name)
        if k is not None:
            return k(*args, **kwargs)
        if getattr(func, "__symx_clone__", False) or getattr(func, "__symx_kernel__", False):
            return func(*args, **kwargs)  # the repository's own (cloned) block function, or one the harness supplies as the user's
        if any(isinstance(a, SArr) for a in args) or any(isinstance(a, SArr) for a in kwargs.values()) or \
                any(isinstance(a, (list, tuple)) and _has_sarr(a) for a in args):
            mod = getattr(func, "__module__", "") or ""
            if mod.startswith(("numpy", "_operator", "operator", "symx.")) or name in SAFE_NAMES:  # (symx.*: the NumPy shims)
                return func(*args, **kwargs)
            raise core.Unsupported(f"block kernel {mod}.{name} has no symbolic-array meaning")
        return func(*args, **kwargs)

    def _eval(self, t, key, top=False):
        from dask._task_spec import Alias, DataNode, List, NestedContainer, Task, TaskRef

        if isinstance(t, NestedContainer):
            if t.klass not in (list, tuple):
                raise core.Unsupported(f"nested container {t.klass.__name__} in a task")
            return t.klass(self._eval(a, key) for a in t.args)
        if isinstance(t, _Value):
            return t.v
        if isinstance(t, Alias):
            return self.get(t.target.key if hasattr(t.target, "key") else t.target, key)
        if isinstance(t, TaskRef):
            return self.get(t.key, key)
        if isinstance(t, DataNode):
            return t.value
        if isinstance(t, Task) and getattr(t.func, "__name__", "") == "_execute_subgraph":
            # Task.fuse: an inner graph executed with the external dependencies bound to its input keys
            inner, outkey, inkeys = t.args[0], t.args[1], t.args[2]
            if isinstance(inner, NestedContainer):
                inner = dict(inner.args) if inner.klass is dict else inner
            if not isinstance(inner, dict):
                raise core.Unsupported("fused task with an unexpected inner graph container")
            deps = [self._eval(a, key) for a in t.args[3:]]
            sub = dict(inner)
            for k, v in zip(inkeys, deps):
                sub[k] = _Value(v)
            r = Runner(sub, self.kernels)
            out = r.get(outkey)
            self.refs.extend((key, b) for (_a, b) in r.refs if b in dict(zip(inkeys, deps)))
            return out
        if isinstance(t, Task):
            args = [self._eval(a, key) for a in t.args]
            kwargs = {k: self._eval(v, key) for k, v in t.kwargs.items()}
            return self._apply(t.func, args, kwargs)
        if isinstance(t, List):
            return [self._eval(a, key) for a in t.args]
        if isinstance(t, list):
            return [self._eval(a, key) for a in t]
        if isinstance(t, tuple) and t and callable(t[0]) and not isinstance(t[0], type):
            args = [self._eval(a, key) for a in t[1:]]
            return self._apply(t[0], args, {})
        if isinstance(t, tuple):
            if _is_key(t, self.dsk) and (not top or t != key):
                return self.get(t, key)
            return tuple(self._eval(a, key) for a in t) if any(
                isinstance(a, (Task, TaskRef, Alias, List, DataNode)) for a in t) else t
        if isinstance(t, dict):
            return {k: self._eval(v, key) for k, v in t.items()}
        if isinstance(t, str) and not top and _is_key(t, self.dsk):
            return self.get(t, key)
        return t


def _has_sarr(x):
    if isinstance(x, SArr):
        return True
    if isinstance(x, (list, tuple)):
        return any(_has_sarr(y) for y in x)
    return False


def _getitem(obj, index):
    return obj[index]


def _getter(a, b, asarray=True, lock=None):
    if isinstance(b, tuple) and any(x is None for x in b):
        from numbers import Integral

        b2 = tuple(x for x in b if x is not None)
        b3 = tuple(None if x is None else slice(None, None) for x in b if not isinstance(x, Integral))
        return _getter(a, b2, asarray=asarray, lock=lock)[b3]
    return a[b]


def _full_like(a, fill_value, dtype=None, order="K", subok=True, shape=None):
    import z3

    if isinstance(a, tuple):
        shape = a  # creation layers (BroadcastTrick) call the wrapped function with the block's shape
    if shape is None:
        shape = a.shape
    c = core.SymReal._r(fill_value)
    return SArr(tuple(shape), lambda idx: c, None, None)


def _concatenate_shaped(arrays, shape):
    """dask.array.core.concatenate_shaped: a flat list of blocks arranged on a grid of `shape`, then concatenate3"""
    def reshapelist(shape, seq):
        if len(shape) == 1:
            return list(seq)
        n = int(len(seq) / shape[0])
        return [reshapelist(shape[1:], seq[i * n:(i + 1) * n]) for i in range(shape[0])]

    return concatenate_nested(reshapelist(tuple(shape), list(arrays)))


def _arange(start, stop, step, length, dtype=None, like=None):
    """dask_array._chunk.arange: np.arange(start, stop, step), dropped to `length` if one longer (exact reals)"""
    import z3
    from .core import SymReal, _ite

    n = ((SymReal._of(stop) - start) / step).__ceil__()
    n = _ite(n < 0, 0, n)
    n = _ite(n > length, n - 1, n)
    a, b = SymReal._r(start), SymReal._r(step)
    return SArr((n,), lambda idx, a=a, b=b: a + b * z3.ToReal(idx[0]))


def _eye(N, M=None, k=0, dtype=None, **kw):
    """np.eye on concrete extents with a possibly symbolic diagonal offset"""
    import z3

    M = N if M is None else M
    kz = core._z(k)
    return SArr((N, M), lambda idx, kz=kz: z3.If(idx[1] - idx[0] == kz, z3.RealVal(1), z3.RealVal(0)))


def _zeros(shape, dtype=None, **kw):
    import z3

    shape = (shape,) if not isinstance(shape, (tuple, list)) else tuple(shape)
    return SArr(shape, lambda idx: z3.RealVal(0))


def _zeros_like(a, dtype=None, order="K", subok=True, shape=None, meta=None):
    return _full_like(a, 0, shape=shape)


def _ones_like(a, dtype=None, order="K", subok=True, shape=None, meta=None):
    return _full_like(a, 1, shape=shape)


def _concatenate_axes(arrays, axes):
    """dask.array.core.concatenate_axes: nesting level k of `arrays` is concatenated along axes[k]"""
    axes = list(axes)

    def rec(x, level):
        if level == len(axes):
            return x
        parts = [rec(y, level + 1) for y in x]
        return np.concatenate(parts, axis=axes[level])

    return rec(arrays, 0)


def _finalize(results):
    """dask_array._core_utils.finalize: concatenate3 when any nesting level holds more than one entry, else the lone block"""
    if not results:
        return concatenate_nested(results)
    r2 = results
    while isinstance(r2, (tuple, list)):
        if len(r2) > 1:
            return concatenate_nested(results)
        r2 = r2[0]
    return r2


KERNELS = dict(eye=_eye, zeros=_zeros, finalize=_finalize, concatenate_axes=_concatenate_axes, zeros_like=_zeros_like, ones_like=_ones_like, arange=_arange, concatenate_shaped=_concatenate_shaped, getitem=_getitem, getter=_getter, getter_nofancy=_getter, getter_inline=_getter,
               concatenate3=concatenate_nested, full_like=_full_like)
SAFE_NAMES = {"add", "sub", "mul", "neg", "getitem", "transpose", "identity"}


# --------------------------------------------------------------------------- whole layers


def grid(numblocks):
    return list(itertools.product(*[range(n) for n in numblocks]))


def layer_keys_ok(E, layer, name, numblocks, label="keys"):
    """The layer defines every key of the output grid under `name`, and no block key (name, *integers of the array's rank) outside it; other
    keys -- also auxiliary ones under the same name such as cumsum's (name, 'extra', i) -- are not the grid's business."""
    want = {(name,) + g for g in grid(numblocks)}
    have = {k for k in layer if isinstance(k, tuple) and k and k[0] == name and len(k) == 1 + len(numblocks) and all(isinstance(i, (int, np.integer)) for i in k[1:])}
    ok = E.ensure(f"{label}-grid", have == want)
    return ok


def run_blocks(E, dsk, name, chunks, label="blocks", kernels=None, check_shapes=True):
    """Execute every output block of `name`; obligation: each block has the advertised shape.
    Returns (whole array assembled from the blocks, runner)."""
    from .oracle import AND

    numblocks = tuple(len(c) for c in chunks)
    r = Runner(dsk, kernels)
    blocks = {}
    for g in grid(numblocks):
        key = (name,) + g
        try:
            b = r.get(key)
        except KeyError as ex:
            E.ensure(f"{label}-closed", False, site=f"missing key {ex.args[0]!r}")
            raise core._Abort()
        if not isinstance(b, SArr):
            raise core.Unsupported(f"block {key!r} evaluated to {type(b).__name__}")
        blocks[g] = b
        if check_shapes:
            if b.ndim != len(chunks):
                E.ensure(f"{label}-rank", False)
                raise core._Abort()
            E.ensure(f"{label}-advertised-shape", AND(*[b.shape[a] == chunks[a][g[a]] for a in range(len(chunks))])
                     if chunks else True)
    if numblocks and not blocks:
        # an empty grid (some axis has no block at all): there is no block to look at and the whole has no elements
        import z3

        return SArr(tuple(sum(c) for c in chunks), lambda idx: z3.RealVal(0)), r
    return assemble(blocks, numblocks), r
