"""symx core: proxy values over z3 terms and the path-exploring engine.

The repository's own function objects (re-bound to shimmed globals, see world.py) are run
on these proxies.  ``SymBool.__bool__`` is the only fork point; a path is a list of branch
decisions and the code under test is re-executed from the start for every path
(DART-style).  See /verif/DESIGN.md section 2.
"""
from __future__ import annotations

import builtins
import numbers
import os
import sys
import time

import z3


class Unsupported(BaseException):
    """The engine cannot decide this instance (solver unknown, cap, budget) -> inconclusive."""


def _raised_by_harness(tb, ex):
    """an exception whose innermost frame is harness code (a reference construction, an instance body) and that is a
    programming error of that code -- not a stand-in for an error NumPy would raise -- is a defect of the check, never a
    finding about the repository"""
    import os

    if isinstance(ex, AttributeError):
        # the code under test asked a harness stand-in (Fake, Src, ...) for an attribute it does not model
        mod = getattr(type(getattr(ex, "obj", None)), "__module__", "") or ""
        if mod.split(".")[0] == "harness":
            return True
    if not tb or not isinstance(ex, (NameError, AttributeError, TypeError, KeyError, UnboundLocalError, ImportError)):
        return False
    here = os.path.dirname(os.path.dirname(os.path.abspath(__file__)))
    return os.path.abspath(tb[-1].filename).startswith(os.path.join(here, "harness") + os.sep)


class HarnessError(BaseException):
    """The harness/engine itself is inconsistent (non-deterministic replay, shim mismatch)."""


class _Abort(BaseException):
    """Path steering: the current path is infeasible (BaseException so repo code's
    ``except Exception`` cannot swallow it)."""


import os as _os

_DEBUG = bool(_os.environ.get('SYMX_DEBUG'))
ENGINE = None  # the active symbolic engine (one per process at a time)


def _eng():
    if ENGINE is None:
        raise HarnessError("symbolic value used outside an engine run")
    return ENGINE


# --------------------------------------------------------------------------- helpers


def _z(x):
    """python int / SymInt / bool -> z3 Int term"""
    if isinstance(x, SymInt):
        return x.z
    if isinstance(x, SymBool):
        return z3.If(x.z, z3.IntVal(1), z3.IntVal(0))
    if isinstance(x, (bool, int)):
        return z3.IntVal(int(x))
    if hasattr(x, "__index__") and not isinstance(x, (SymReal, float)):
        return z3.IntVal(x.__index__())  # numpy integers
    raise TypeError(f"not int-like: {x!r}")


def _is_intlike(x):
    if isinstance(x, (int, SymInt, SymBool)):
        return True
    # numpy integer scalars
    return isinstance(x, numbers.Integral)


def _is_floatlike(x):
    return isinstance(x, float) or (
        isinstance(x, numbers.Real) and not isinstance(x, (numbers.Integral, SymReal))
    )


def pydiv(a, b):
    """Python floor division on z3 Int terms (b != 0 handled by the caller).
    z3's ``div`` is Euclidean (remainder >= 0): floor(a/b) = a div b for b > 0 and
    (-a) div (-b) for b < 0."""
    if z3.is_int_value(b):
        if b.as_long() > 0:
            return a / b
        return (-a) / (-b)
    return z3.If(b > 0, a / b, (-a) / (-b))


def _wrapi(z):
    z = z3.simplify(z)
    if z3.is_int_value(z):
        return z.as_long()
    return SymInt(z)


def _wrapr(z):
    return SymReal(z3.simplify(z))


def _wrapb(z):
    z = z3.simplify(z)
    if z3.is_true(z):
        return True
    if z3.is_false(z):
        return False
    return SymBool(z)


def zbool(x):
    """python bool / SymBool / z3 Bool -> z3 Bool term"""
    if isinstance(x, SymBool):
        return x.z
    if isinstance(x, z3.BoolRef):
        return x
    if isinstance(x, (bool, int)) or x is None:
        return z3.BoolVal(bool(x))
    if isinstance(x, SymInt):
        return x.z != 0
    if hasattr(x, "dtype") and getattr(x, "shape", None) == ():
        return z3.BoolVal(bool(x))
    raise TypeError(f"not bool-like: {x!r}")


def is_symbolic(x):
    return isinstance(x, (SymInt, SymReal, SymBool, SymSlice))


# --------------------------------------------------------------------------- SymBool


class SymBool:
    __slots__ = ("z",)

    def __init__(self, z):
        self.z = z

    def __bool__(self):
        return _eng().branch(self.z)

    def __and__(self, o):
        return _wrapb(z3.And(self.z, zbool(o)))

    __rand__ = __and__

    def __or__(self, o):
        return _wrapb(z3.Or(self.z, zbool(o)))

    __ror__ = __or__

    def __invert__(self):
        return _wrapb(z3.Not(self.z))

    def __xor__(self, o):
        return _wrapb(z3.Xor(self.z, zbool(o)))

    # arithmetic on bools (sum(c > 0 for c in ...))
    def _i(self):
        return SymInt(z3.If(self.z, z3.IntVal(1), z3.IntVal(0)))

    def __add__(self, o):
        return self._i() + o

    def __radd__(self, o):
        return o + self._i()

    def __mul__(self, o):
        return self._i() * o

    __rmul__ = __mul__

    def __sub__(self, o):
        return self._i() - o

    def __rsub__(self, o):
        return o - self._i()

    def __index__(self):
        return 1 if bool(self) else 0

    __int__ = __index__

    def __repr__(self):
        return f"SymBool({self.z})"


# --------------------------------------------------------------------------- SymInt


class SymInt:
    __slots__ = ("z",)

    def __init__(self, z):
        self.z = z

    # -- arithmetic
    def __add__(self, o):
        if _is_floatlike(o):
            return SymReal._of(self) + o
        if isinstance(o, SymReal):
            return NotImplemented
        if not _is_intlike(o):
            return NotImplemented
        return _wrapi(self.z + _z(o))

    __radd__ = __add__

    def __sub__(self, o):
        if _is_floatlike(o):
            return SymReal._of(self) - o
        if isinstance(o, SymReal) or not _is_intlike(o):
            return NotImplemented
        return _wrapi(self.z - _z(o))

    def __rsub__(self, o):
        if _is_floatlike(o):
            return o - SymReal._of(self)
        if not _is_intlike(o):
            return NotImplemented
        return _wrapi(_z(o) - self.z)

    def __mul__(self, o):
        if _is_floatlike(o):
            return SymReal._of(self) * o
        if isinstance(o, SymReal) or not _is_intlike(o):
            return NotImplemented
        return _wrapi(self.z * _z(o))

    __rmul__ = __mul__

    def __neg__(self):
        return _wrapi(-self.z)

    def __pos__(self):
        return self

    def __abs__(self):
        return _wrapi(z3.If(self.z >= 0, self.z, -self.z))

    @staticmethod
    def _divmod(a, b):
        bz = _z(b)
        az = _z(a)
        if isinstance(b, SymInt):
            if SymBool(bz == 0):
                raise ZeroDivisionError("integer division or modulo by zero")
        elif int(b) == 0:
            raise ZeroDivisionError("integer division or modulo by zero")
        q = pydiv(az, bz)
        return q, az - bz * q

    def __floordiv__(self, o):
        if isinstance(o, SymReal) or _is_floatlike(o):
            return SymReal._of(self).__floordiv__(o)
        if not _is_intlike(o):
            return NotImplemented
        return _wrapi(self._divmod(self, o)[0])

    def __rfloordiv__(self, o):
        if not _is_intlike(o):
            return NotImplemented
        return _wrapi(self._divmod(o, self)[0])

    def __mod__(self, o):
        if not _is_intlike(o):
            return NotImplemented
        return _wrapi(self._divmod(self, o)[1])

    def __rmod__(self, o):
        if not _is_intlike(o):
            return NotImplemented
        return _wrapi(self._divmod(o, self)[1])

    def __divmod__(self, o):
        if not _is_intlike(o):
            return NotImplemented
        q, r = self._divmod(self, o)
        return _wrapi(q), _wrapi(r)

    def __rdivmod__(self, o):
        if not _is_intlike(o):
            return NotImplemented
        q, r = self._divmod(o, self)
        return _wrapi(q), _wrapi(r)

    def __truediv__(self, o):
        if isinstance(o, SymReal):
            return NotImplemented
        if _is_floatlike(o):
            if float(o) == 0.0:
                raise ZeroDivisionError("float division by zero")
            return SymReal._of(self) / o
        if not _is_intlike(o):
            return NotImplemented
        if isinstance(o, SymInt):
            if SymBool(o.z == 0):
                raise ZeroDivisionError("division by zero")
        elif int(o) == 0:
            raise ZeroDivisionError("division by zero")
        out = _wrapr(z3.ToReal(self.z) / z3.ToReal(_z(o)))
        if not isinstance(o, SymInt):
            out.q = (self.z, int(o)) if int(o) > 0 else (-self.z, -int(o))
        return out

    def __rtruediv__(self, o):
        if SymBool(self.z == 0):
            raise ZeroDivisionError("division by zero")
        if _is_floatlike(o):
            return _wrapr(z3.RealVal(float(o)) / z3.ToReal(self.z))
        if not _is_intlike(o):
            return NotImplemented
        return _wrapr(z3.ToReal(_z(o)) / z3.ToReal(self.z))

    def __pow__(self, k, mod=None):
        if mod is None and isinstance(k, int) and not isinstance(k, bool) and 0 <= k <= 8:
            out = z3.IntVal(1)
            for _ in builtins.range(k):
                out = out * self.z
            return _wrapi(out)
        # anything else (fractional / symbolic exponents) has no theory: concretise
        return pow(int(self), k) if mod is None else pow(int(self), k, mod)

    def __rpow__(self, b):
        return pow(b, int(self))

    # -- comparisons
    def _cmp(self, o, op):
        if isinstance(o, float) and (o != o or o in (float("inf"), float("-inf"))):
            return bool(op(0.0, o))  # every integer compares with inf / NaN the way 0.0 does
        if _is_floatlike(o):
            return _wrapb(op(z3.ToReal(self.z), z3.RealVal(float(o))))
        if isinstance(o, SymReal):
            return _wrapb(op(z3.ToReal(self.z), o.z))
        if not _is_intlike(o):
            return NotImplemented
        return _wrapb(op(self.z, _z(o)))

    def __lt__(self, o):
        return self._cmp(o, lambda a, b: a < b)

    def __le__(self, o):
        return self._cmp(o, lambda a, b: a <= b)

    def __gt__(self, o):
        return self._cmp(o, lambda a, b: a > b)

    def __ge__(self, o):
        return self._cmp(o, lambda a, b: a >= b)

    def __eq__(self, o):
        r = self._cmp(o, lambda a, b: a == b)
        return False if r is NotImplemented else r

    def __ne__(self, o):
        r = self._cmp(o, lambda a, b: a != b)
        return True if r is NotImplemented else r

    def __bool__(self):
        return _eng().branch(self.z != 0)

    # -- C boundary: concretise (solver-driven case split, minimal feasible value)
    def __hash__(self):
        return hash(_eng().concretize(self.z))

    def __index__(self):
        return _eng().concretize(self.z)

    __int__ = __index__

    def __float__(self):
        return float(_eng().concretize(self.z))

    def __round__(self, nd=None):
        return self

    def __ceil__(self):
        return self

    def __floor__(self):
        return self

    def __trunc__(self):
        return self

    def is_integer(self):
        return True

    def item(self):
        return self

    @property
    def real(self):
        return self

    @property
    def imag(self):
        return 0

    def __repr__(self):
        return f"SymInt({self.z})"

    __str__ = __repr__

    def __format__(self, spec):
        return repr(self)


numbers.Integral.register(SymInt)


# --------------------------------------------------------------------------- SymReal


class FloatNaN:
    """IEEE NaN as produced by 0/0 or x/0 under np.errstate(ignore): absorbs arithmetic, compares false.
    Only produced when ``IEEE_DIV`` is switched on by a harness whose code under test relies on that."""

    _inst = None

    def __new__(cls):
        if cls._inst is None:
            cls._inst = object.__new__(cls)
        return cls._inst

    def _same(self, *a, **k):
        return self

    __add__ = __radd__ = __sub__ = __rsub__ = __mul__ = __rmul__ = __truediv__ = __rtruediv__ = _same
    __pow__ = __rpow__ = __neg__ = __pos__ = __abs__ = __floordiv__ = __rfloordiv__ = _same

    def _false(self, o):
        return False

    __lt__ = __le__ = __gt__ = __ge__ = __eq__ = _false

    def __ne__(self, o):
        return True

    def __hash__(self):
        return 0

    def __bool__(self):
        return True

    def __float__(self):
        return float("nan")

    def __repr__(self):
        return "nan"


IEEE_DIV = False


def _q_of(o):
    """(numerator Int term, positive int denominator) of an operand that is an integer over a constant, else None"""
    if isinstance(o, SymReal):
        return o.q
    if isinstance(o, SymInt):
        return (o.z, 1)
    if isinstance(o, SymBool):
        return (_z(o), 1)
    if isinstance(o, float):
        return (z3.IntVal(int(o)), 1) if o == o and o not in (float("inf"), float("-inf")) and o == int(o) else None
    if isinstance(o, (bool, int, numbers.Integral)):
        return (z3.IntVal(int(o)), 1)
    return None


def _q_comb(a, b, op):
    if a is None or b is None:
        return None
    (n1, d1), (n2, d2) = a, b
    if op in ("+", "-"):
        import math as _m

        d = d1 * d2 // _m.gcd(d1, d2)
        if d > 64:
            return None
        x, y = n1 * (d // d1), n2 * (d // d2)
        return (z3.simplify(x + y if op == "+" else x - y), d)
    if op == "*":
        if z3.is_int_value(n2) or z3.is_int_value(n1):
            return (z3.simplify(n1 * n2), d1 * d2) if d1 * d2 <= 64 else None
        return None
    if op == "/":
        if z3.is_int_value(n2) and n2.as_long() != 0 and d2 == 1:
            k = n2.as_long()
            if d1 * abs(k) > 64:
                return None
            return (n1 if k > 0 else z3.simplify(-n1), d1 * abs(k))
        return None


class SymReal:
    """Exact rational/real arithmetic standing in for Python floats (DESIGN 2.4: float
    rounding is not modelled; exact while magnitudes stay below 2**53)."""

    # q: (numerator Int term, positive concrete denominator) when the value is an integer over a constant -- floor/ceil/
    # trunc then stay in integer arithmetic (div), which z3 decides far more readily than to_int over mixed terms
    __slots__ = ("z", "q")

    def __init__(self, z, q=None):
        self.z = z
        self.q = q

    @staticmethod
    def _r(o):
        if isinstance(o, SymReal):
            return o.z
        if isinstance(o, SymInt):
            return z3.ToReal(o.z)
        if isinstance(o, SymBool):
            return z3.ToReal(_z(o))
        if isinstance(o, (bool, int)):
            return z3.RealVal(int(o))
        if isinstance(o, float):
            if o != o or o in (float("inf"), float("-inf")):
                raise Unsupported("non-finite float in symbolic real arithmetic")
            return z3.RealVal(repr(o)) if o != int(o) else z3.RealVal(int(o))
        if isinstance(o, numbers.Integral):
            return z3.RealVal(int(o))
        if isinstance(o, numbers.Real):
            return SymReal._r(float(o))
        raise TypeError(f"not real-like: {o!r}")

    @staticmethod
    def _of(o):
        return SymReal(SymReal._r(o), _q_of(o))

    @staticmethod
    def _ok(o):
        return isinstance(o, (SymReal, SymInt, SymBool, int, float, numbers.Real)) and not isinstance(o, FloatNaN)

    def _with_q(self, q):
        self.q = q
        return self

    def __add__(self, o):
        if not self._ok(o):
            return NotImplemented
        return _wrapr(self.z + self._r(o))._with_q(_q_comb(self.q, _q_of(o), "+"))

    __radd__ = __add__

    def __sub__(self, o):
        if not self._ok(o):
            return NotImplemented
        return _wrapr(self.z - self._r(o))._with_q(_q_comb(self.q, _q_of(o), "-"))

    def __rsub__(self, o):
        if not self._ok(o):
            return NotImplemented
        return _wrapr(self._r(o) - self.z)._with_q(_q_comb(_q_of(o), self.q, "-"))

    def __mul__(self, o):
        if not self._ok(o):
            return NotImplemented
        return _wrapr(self.z * self._r(o))._with_q(_q_comb(self.q, _q_of(o), "*"))

    __rmul__ = __mul__

    def __truediv__(self, o):
        if not self._ok(o):
            return NotImplemented
        if isinstance(o, FloatNaN):
            return o
        d = self._r(o)
        if _wrapb(d == 0):
            if IEEE_DIV:
                return FloatNaN()
            raise ZeroDivisionError("float division by zero")
        return _wrapr(self.z / d)._with_q(_q_comb(self.q, _q_of(o), "/"))

    def __rtruediv__(self, o):
        if not self._ok(o):
            return NotImplemented
        if _wrapb(self.z == 0):
            raise ZeroDivisionError("float division by zero")
        return _wrapr(self._r(o) / self.z)

    def __floordiv__(self, o):
        q = self.__truediv__(o)
        return _wrapr(z3.ToReal(z3.ToInt(q.z)))

    def __neg__(self):
        return _wrapr(-self.z)._with_q(None if self.q is None else (z3.simplify(-self.q[0]), self.q[1]))

    def __pos__(self):
        return self

    def __abs__(self):
        return _wrapr(z3.If(self.z >= 0, self.z, -self.z))

    def __pow__(self, k):
        if isinstance(k, float) and k == int(k):
            k = int(k)
        if isinstance(k, int) and not isinstance(k, bool) and 0 <= k <= 8:
            out = z3.RealVal(1)
            for _ in builtins.range(k):
                out = out * self.z
            return _wrapr(out)
        return float(self) ** k

    def __rpow__(self, b):
        return b ** float(self)

    def _cmp(self, o, op):
        if not self._ok(o):
            return NotImplemented
        if isinstance(o, float) and (o != o or o in (float("inf"), float("-inf"))):
            return bool(op(0.0, o))  # every finite real compares with inf / NaN the way 0.0 does
        return _wrapb(op(self.z, self._r(o)))

    def __lt__(self, o):
        return self._cmp(o, lambda a, b: a < b)

    def __le__(self, o):
        return self._cmp(o, lambda a, b: a <= b)

    def __gt__(self, o):
        return self._cmp(o, lambda a, b: a > b)

    def __ge__(self, o):
        return self._cmp(o, lambda a, b: a >= b)

    def __eq__(self, o):
        r = self._cmp(o, lambda a, b: a == b)
        return False if r is NotImplemented else r

    def __ne__(self, o):
        r = self._cmp(o, lambda a, b: a != b)
        return True if r is NotImplemented else r

    def __bool__(self):
        return _eng().branch(self.z != 0)

    def __hash__(self):
        return hash(float(self))

    def __float__(self):
        return _eng().concretize_real(self.z)

    def __int__(self):
        return int(self.__trunc__())

    def __trunc__(self):
        if self.q is not None:
            n, d = self.q
            return _wrapi(z3.If(n >= 0, n / d, -((-n) / d)))
        return _wrapi(z3.If(self.z >= 0, z3.ToInt(self.z), -z3.ToInt(-self.z)))

    def __floor__(self):
        if self.q is not None:
            return _wrapi(self.q[0] / self.q[1])  # Int `div` by a positive constant is floor division
        return _wrapi(z3.ToInt(self.z))

    def __ceil__(self):
        if self.q is not None:
            return _wrapi(-((-self.q[0]) / self.q[1]))
        return _wrapi(-z3.ToInt(-self.z))

    def __round__(self, nd=None):
        if nd is not None:
            return round(float(self), nd)
        # round half to even
        fl = z3.ToInt(self.z)
        frac = self.z - z3.ToReal(fl)
        half = z3.RealVal("1/2")
        return _wrapi(
            z3.If(frac < half, fl, z3.If(frac > half, fl + 1, z3.If(fl % 2 == 0, fl, fl + 1)))
        )

    def is_integer(self):
        return _wrapb(z3.IsInt(self.z))

    def item(self):
        return self

    def __repr__(self):
        return f"SymReal({self.z})"

    __str__ = __repr__

    def __format__(self, spec):
        return repr(self)


numbers.Real.register(SymReal)


# --------------------------------------------------------------------------- slices / ranges


class _SliceMeta(type):
    def __instancecheck__(cls, obj):
        return type(obj) is builtins.slice or type(obj) is SymSlice


class SymSlice(metaclass=_SliceMeta):
    """``slice`` whose members may be symbolic.  ``slice(...)`` in cloned code resolves
    here (always, even with concrete members: the axis length passed to ``.indices`` may
    still be symbolic).  ``.indices`` is the model of CPython's PySlice_AdjustIndices
    (validated against CPython by selftest and by per-run witness replay)."""

    __slots__ = ("start", "stop", "step")

    def __new__(cls, *args):
        if len(args) == 1:
            args = (None, args[0], None)
        elif len(args) == 2:
            args = (args[0], args[1], None)
        elif len(args) != 3:
            raise TypeError("slice expected at most 3 arguments")
        self = object.__new__(cls)
        self.start, self.stop, self.step = args
        return self

    def _tup(self):
        return (self.start, self.stop, self.step)

    def __eq__(self, o):
        if type(o) is builtins.slice:
            ot = (o.start, o.stop, o.step)
        elif type(o) is SymSlice:
            ot = o._tup()
        else:
            return False
        for a, b in zip(self._tup(), ot):
            if (a is None) != (b is None):
                return False
            if a is None:
                continue
            if not (a == b):
                return False
        return True

    def __ne__(self, o):
        return not self.__eq__(o)

    def __hash__(self):
        return hash(tuple(None if a is None else int(a) for a in self._tup()))

    def indices(self, n):
        return slice_indices(self.start, self.stop, self.step, n)

    def concrete(self):
        return builtins.slice(*(None if a is None else int(a) for a in self._tup()))

    def __repr__(self):
        return f"SymSlice({self.start}, {self.stop}, {self.step})"


def _ite(c, a, b):
    """value-level if-then-else: merges instead of forking when c is symbolic"""
    if isinstance(c, SymBool):
        if isinstance(a, (SymReal, float)) or isinstance(b, (SymReal, float)):
            return _wrapr(z3.If(c.z, SymReal._r(a), SymReal._r(b)))
        return _wrapi(z3.If(c.z, _z(a), _z(b)))
    return a if c else b


def slice_indices(start, stop, step, n):
    """CPython's slice.indices(n) (PySlice_AdjustIndices) on possibly symbolic ints.
    Merges with ite (no forks) for symbolic start/stop/n; forks only on the sign of a
    symbolic step."""
    if step is None:
        step = 1
    if step == 0:
        raise ValueError("slice step cannot be zero")
    if step < 0:
        lower, upper = -1, n - 1
        d_start, d_stop = upper, lower
    else:
        lower, upper = 0, n
        d_start, d_stop = lower, upper

    def clamp(v):
        return _ite(v < 0, _ite(v + n < lower, lower, v + n), _ite(v > upper, upper, v))

    start = d_start if start is None else clamp(start)
    stop = d_stop if stop is None else clamp(stop)
    return start, stop, step


def range_len(start, stop, step):
    """len(range(start, stop, step)) on possibly symbolic ints (ite-merged; forks only on
    the sign of a symbolic step)."""
    if step > 0:
        return _ite(start >= stop, 0, (stop - start - 1) // step + 1)
    else:
        return _ite(start <= stop, 0, (start - stop - 1) // (-step) + 1)


class SymRange:
    def __init__(self, *a):
        if len(a) == 1:
            a = (0, a[0], 1)
        elif len(a) == 2:
            a = (a[0], a[1], 1)
        self.start, self.stop, self.step = a

    def __iter__(self):
        n = int(range_len(self.start, self.stop, self.step))  # trip count is concretised
        cur = self.start
        for _ in builtins.range(n):
            yield cur
            cur = cur + self.step

    def __len__(self):
        return int(range_len(self.start, self.stop, self.step))

    def __getitem__(self, i):
        n = range_len(self.start, self.stop, self.step)
        if i < 0:
            i = i + n
        if i < 0 or i >= n:
            raise IndexError("range object index out of range")
        return self.start + i * self.step

    def __reversed__(self):
        return iter(list(self)[::-1])


# --------------------------------------------------------------------------- the engine


def _site():
    """Branch signature for the determinism check of re-execution: the source location of
    the nearest frame outside the engine.  (Not the condition's s-expression: z3's
    simplifier orders commutative arguments by AST id, which differs between runs.)"""
    f = sys._getframe(2)
    while f is not None and f.f_code.co_filename.endswith(("symx/core.py", "symx/world.py")):
        f = f.f_back
    return f"{f.f_code.co_filename}:{f.f_lineno}" if f is not None else "?"


class Stats(dict):
    def bump(self, k, n=1):
        self[k] = self.get(k, 0) + n


class Engine:
    """Symbolic context handed to harness bodies (``E``)."""

    symbolic = True

    def __init__(self, timeout_ms=20000, max_paths=20000, concretize_cap=64, wall_s=600.0,
                 max_samples=3):
        self.timeout_ms = timeout_ms
        self.max_paths = max_paths
        self.cap = concretize_cap
        self.wall_s = wall_s
        self.max_samples = max_samples
        self.stats = Stats(paths=0, reached=0, infeasible=0, queries=0, unknown=0, solver_s=0.0,
                           concretisations=0, obligations=0, discharged=0, nontrivial=0,
                           branches=0)
        self.samples = []       # a few (pc, vc) in SMT-LIB2 + witness values
        self.witnesses = []     # concrete input assignments of reached paths
        self.findings = []      # dicts: label, site, values, path
        self.inputs = {}        # name -> z3 const (insertion order = declaration order)
        self.on_finding = None  # callback(finding) -> 'stop' | 'continue'
        self._t0 = None

    # ---- solver plumbing (a fresh solver per path; see DESIGN 2.2)
    def _new_solver(self):
        s = z3.Solver()
        s.set("timeout", self.timeout_ms)
        return s

    def check(self, *extra):
        if self._t0 is not None and time.time() - self._t0 > self.wall_s:
            raise Unsupported(f"instance wall budget {self.wall_s}s exceeded")
        t = time.time()
        while self._added < len(self.pc):
            self.solver.add(self.pc[self._added])
            self._added += 1
        if extra:
            self.solver.push()
            self.solver.add(*extra)
            if os.environ.get("SYMX_DUMP_LAST"):
                with open(os.environ["SYMX_DUMP_LAST"], "w") as fh:
                    fh.write(self.solver.to_smt2())
            r = self.solver.check()
            m = self.solver.model() if r == z3.sat else None
            self.solver.pop()
        else:
            r = self.solver.check()
            m = self.solver.model() if r == z3.sat else None
        self.stats.bump("queries")
        self.stats["solver_s"] += time.time() - t
        if r == z3.unknown:
            self.stats.bump("unknown")
        return r, m

    def canon(self, z):
        """id of a canonical representative of the term `z` on this path: two terms that the path condition forces to be
        equal get the same id (used to name things the way hashing concrete values would: equal values, equal tokens).
        Terms that are equal only for some values keep different ids -- such coincidences are outside the model."""
        z = z3.simplify(z)
        tid = z.get_id()
        table = self.__dict__.setdefault("_canon", {})
        if table.get("_path") is not self.pc:
            table.clear()
            table["_path"] = self.pc
            table["_reps"] = []
        if tid in table:
            return table[tid]
        if z3.is_int_value(z) or z3.is_rational_value(z) or z3.is_true(z) or z3.is_false(z):
            table[tid] = tid
            return tid
        out = tid
        if self._model is None:
            r, m = self.check()
            if r == z3.sat:
                self._model = m
        val = self._model.eval(z, model_completion=True) if self._model is not None else None
        for rep, rid, rval in table["_reps"]:
            if rep.sort() != z.sort():
                continue
            if val is not None and rval is not None and not z3.eq(val, rval):
                continue
            r, _m = self.check(rep != z)
            if r == z3.unsat:
                out = rid
                break
        if out == tid:
            table["_reps"].append((z, tid, val))
        table[tid] = out
        return out

    def _model_says(self, cond):
        """If the cached model of the current pc decides cond, return True/False, else None."""
        if self._model is None:
            return None
        v = self._model.eval(cond, model_completion=True)
        if z3.is_true(v):
            return True
        if z3.is_false(v):
            return False
        return None

    # ---- forking
    def branch(self, cond):
        cond = z3.simplify(cond)
        if z3.is_true(cond):
            return True
        if z3.is_false(cond):
            return False
        k = self.pos
        self.pos += 1
        sig = _site()
        if k < len(self.prefix):
            d = self.prefix[k]
            if self.prefix_sig[k] != sig:
                raise HarnessError(
                    f"non-deterministic re-execution at branch {k}: {self.prefix_sig[k]} vs {sig}"
                )
            if k == len(self.prefix) - 1:
                self._model = None  # model of the parent path is for the other side
        else:
            self.stats.bump("branches")
            known = self._model_says(cond)
            if known is None:
                r, m = self.check()
                if r == z3.unknown:
                    raise Unsupported("solver unknown on path condition")
                if r == z3.unsat:
                    raise _Abort()
                self._model = m
                known = self._model_says(cond)
                if known is None:
                    known = True if z3.is_true(m.eval(cond, model_completion=True)) else False
            # side `known` is feasible (witnessed by the cached model); ask about the other
            other = z3.Not(cond) if known else cond
            r, m2 = self.check(other)
            if r == z3.unknown:
                if os.environ.get("SYMX_DUMP"):
                    with open(os.environ["SYMX_DUMP"], "w") as fh:
                        fh.write(self.solver.to_smt2().replace("(check-sat)", "") + f"(assert {other.sexpr()})\n(check-sat)\n")
                raise Unsupported("solver unknown at branch")
            both = r == z3.sat
            if both:
                d = True  # deterministic order: True side first
                self.work.append((self.trace + [False], self.sig + [sig]))
                if known is not True:
                    self._model = m2
            else:
                d = known
            self.prefix.append(d)
            self.prefix_sig.append(sig)
        self.trace.append(d)
        self.sig.append(sig)
        self.pc.append(cond if d else z3.Not(cond))
        return d

    def concretize(self, zexpr):
        zexpr = z3.simplify(zexpr)
        if z3.is_int_value(zexpr):
            return zexpr.as_long()
        self.stats.bump("concretisations")
        if _DEBUG:
            import traceback

            print("CONCRETIZE", zexpr, file=sys.stderr)
            traceback.print_stack(limit=8, file=sys.stderr)
        for _ in builtins.range(self.cap):
            r, m = self.check()
            if r == z3.unknown:
                raise Unsupported("solver unknown in concretize")
            if r != z3.sat:
                raise _Abort()
            v = m.eval(zexpr, model_completion=True).as_long()
            best = m
            # deterministic choice: minimal feasible value (re-execution must agree)
            while True:
                r2, m2 = self.check(zexpr < v)
                if r2 == z3.unknown:
                    raise Unsupported("solver unknown in concretize")
                if r2 != z3.sat:
                    break
                v = m2.eval(zexpr, model_completion=True).as_long()
                best = m2
                if v < -(10 ** 6):
                    raise Unsupported("unbounded-below value at a C boundary")
            self._model = best
            if self.branch(zexpr == v):
                return v
        raise Unsupported(f"concretisation cap {self.cap} exceeded (unbounded value at a C boundary)")

    def concretize_real(self, zexpr):
        zexpr = z3.simplify(zexpr)
        if z3.is_rational_value(zexpr):
            return zexpr.numerator_as_long() / zexpr.denominator_as_long()

        def fv(e, acc):
            if z3.is_const(e) and e.decl().kind() == z3.Z3_OP_UNINTERPRETED:
                acc[str(e)] = e
            for c in e.children():
                fv(c, acc)
            return acc

        for _name, v in sorted(fv(zexpr, {}).items()):
            if v.sort() == z3.IntSort():
                self.concretize(v)
            else:
                raise Unsupported("float() of a term with real-valued symbolic inputs")
        r, m = self.check()
        if r != z3.sat:
            raise _Abort()
        val = z3.simplify(m.eval(zexpr, model_completion=True))
        if not z3.is_rational_value(val):
            raise Unsupported("cannot evaluate real term")
        return val.numerator_as_long() / val.denominator_as_long()

    # ---- harness API
    def int(self, name, lo=None, hi=None):
        if name in self.inputs:
            v = self.inputs[name]
        else:
            v = z3.Int(name)
            self.inputs[name] = v
        x = SymInt(v)
        if lo is not None:
            self.assume(x >= lo)
        if hi is not None:
            self.assume(x <= hi)
        return x

    def real(self, name):
        if name in self.inputs:
            v = self.inputs[name]
        else:
            v = z3.Real(name)
            self.inputs[name] = v
        return SymReal(v)

    def slice(self, a, b, c):
        return SymSlice(a, b, c)

    def assume(self, c):
        c = z3.simplify(zbool(c))
        if z3.is_true(c):
            return
        self.pc.append(c)
        known = self._model_says(c)
        if known is True:
            return
        r, m = self.check()
        if r == z3.unknown:
            raise Unsupported("solver unknown at assume")
        if r != z3.sat:
            raise _Abort()
        self._model = m

    def observe(self, name, value):
        self.observations.append((name, value))

    def tag(self, key, value):
        self.tags[key] = value

    def input_values(self, model):
        out = {}
        for name, v in self.inputs.items():
            val = z3.simplify(model.eval(v, model_completion=True))
            if z3.is_int_value(val):
                out[name] = val.as_long()
            elif z3.is_rational_value(val):
                out[name] = [val.numerator_as_long(), val.denominator_as_long()]
            else:
                out[name] = str(val)
        return out

    def ensure(self, label, cond, site=None):
        """Obligation: pc => cond.  Discharged by the solver here, at the point stated."""
        self.stats.bump("obligations")
        c = z3.simplify(zbool(cond))
        if z3.is_true(c):
            self.stats.bump("discharged")
            return True
        self.stats.bump("nontrivial")
        blocked = []
        for _attempt in builtins.range(9):
            r, m = self.check(z3.Not(c), *blocked)
            if r == z3.unknown:
                raise Unsupported(f"solver unknown on obligation {label!r}")
            if r == z3.unsat:
                if not blocked:
                    self.stats.bump("discharged")
                    if len(self.samples) < self.max_samples:
                        self._sample(label, c)
                    return True
                raise HarnessError(
                    f"obligation {label!r}: {len(blocked)} solver model(s) did not reproduce "
                    "on the concrete code and no further model exists (modelling gap)"
                )
            values = self.input_values(m)
            finding = dict(label=label, site=site or self.tags.get("site"), values=values,
                           tags=dict(self.tags), kind="post")
            verdict = self.on_finding(finding) if self.on_finding else "stop"
            if verdict == "not-reproduced":
                self.stats.bump("not_reproduced")
                blocked.append(z3.Or(*[self.inputs[k] != m.eval(self.inputs[k], model_completion=True)
                                       for k in self.inputs]))
                continue
            self.findings.append(finding)
            if verdict == "stop":
                raise _Stop()
            return False
        raise HarnessError(f"obligation {label!r}: 9 solver models did not reproduce")

    def _sample(self, label, c):
        s = z3.Solver()
        s.add(*self.pc)
        s.add(z3.Not(c))
        txt = s.to_smt2()
        if len(txt) < 6000:
            self.samples.append(dict(obligation=label, expect="unsat", smt2=txt))

    # ---- exploration
    def explore(self, body):
        """Run body(E) over every feasible path.  body states obligations via E.ensure and/or
        returns a final post-condition.  Returns the list of findings."""
        global ENGINE
        prev = ENGINE
        ENGINE = self
        self._t0 = time.time()
        self.work = [([], [])]
        try:
            while self.work:
                pre, presig = self.work.pop()
                self.prefix, self.prefix_sig = list(pre), list(presig)
                self.trace, self.sig, self.pos = [], [], 0
                self.pc, self._added = [], 0
                self.solver = self._new_solver()
                self._model = None
                self.observations, self.tags = [], {}
                self.stats.bump("paths")
                if self.stats["paths"] > self.max_paths:
                    raise Unsupported(f"path budget {self.max_paths} exceeded")
                try:
                    try:
                        post = body(self)
                    except (Unsupported, HarnessError):
                        raise
                    except Exception as ex:  # the code under test raised: candidate finding
                        r, m = self.check()
                        if r == z3.unknown:
                            raise Unsupported("solver unknown at exception")
                        if r != z3.sat:
                            raise _Abort()
                        import traceback

                        tb = traceback.extract_tb(ex.__traceback__)
                        where = [f"{f.filename.rsplit('/', 1)[-1]}:{f.lineno}:{f.name}" for f in tb[-3:]]
                        if _raised_by_harness(tb, ex):
                            raise HarnessError(f"the harness itself raised {type(ex).__name__}: {ex} at {where}")
                        finding = dict(label=f"unexpected {type(ex).__name__}: {str(ex)[:200]}",
                                       site=self.tags.get("site"), values=self.input_values(m),
                                       tags=dict(self.tags), kind="exception", where=where)
                        verdict = self.on_finding(finding) if self.on_finding else "stop"
                        if verdict == "not-reproduced":
                            raise HarnessError(
                                f"exception on symbolic path does not reproduce concretely: "
                                f"{type(ex).__name__}: {ex} at {where} values={finding['values']}"
                            )
                        self.findings.append(finding)
                        if verdict == "stop":
                            raise _Stop()
                        continue
                    self.stats.bump("reached")
                    if post is not None:
                        self.ensure("post", post)
                    if len(self.witnesses) < 64:
                        r, m = (z3.sat, self._model) if self._model is not None else self.check()
                        # the cached model may predate later assumes; re-check cheaply
                        if m is None or not all(z3.is_true(m.eval(c, model_completion=True)) for c in self.pc):
                            r, m = self.check()
                        if r == z3.sat:
                            obs = [(k, eval_under(m, v)) for k, v in self.observations]
                            self.witnesses.append(dict(values=self.input_values(m), observations=obs, tags=dict(self.tags)))
                except _Abort:
                    self.stats.bump("infeasible")
                    continue
                except _Stop:
                    break
        finally:
            ENGINE = prev
        return self.findings


class _Stop(BaseException):
    pass


def eval_under(model, v):
    """Evaluate a (nested) structure of proxies under a z3 model -> plain Python data."""
    if isinstance(v, SymInt):
        r = z3.simplify(model.eval(v.z, model_completion=True))
        return r.as_long()
    if isinstance(v, SymBool):
        return z3.is_true(z3.simplify(model.eval(v.z, model_completion=True)))
    if isinstance(v, SymReal):
        r = z3.simplify(model.eval(v.z, model_completion=True))
        if z3.is_rational_value(r):
            return r.numerator_as_long() / r.denominator_as_long()
        return str(r)
    if isinstance(v, SymSlice) or type(v) is builtins.slice:
        return ("slice", eval_under(model, v.start), eval_under(model, v.stop), eval_under(model, v.step))
    if isinstance(v, (tuple, list)):
        return [eval_under(model, x) for x in v]
    if isinstance(v, dict):
        return {str(eval_under(model, k)): eval_under(model, x) for k, x in v.items()}
    if isinstance(v, (bool, int, float, str)) or v is None:
        return v
    if isinstance(v, numbers.Integral):
        return int(v)
    if isinstance(v, numbers.Real):
        return float(v)
    return repr(v)


def plain(v):
    """Same normal form as eval_under, for concrete runs."""
    if type(v) is builtins.slice:
        return ("slice", plain(v.start), plain(v.stop), plain(v.step))
    if isinstance(v, (tuple, list)):
        return [plain(x) for x in v]
    if isinstance(v, dict):
        return {str(plain(k)): plain(x) for k, x in v.items()}
    if isinstance(v, (bool, str)) or v is None:
        return v
    if isinstance(v, numbers.Integral):
        return int(v)
    if isinstance(v, numbers.Real):
        return float(v)
    return repr(v)


def _norm(v):
    if isinstance(v, (tuple, list)):
        return [_norm(x) for x in v]
    if isinstance(v, dict):
        return {k: _norm(x) for k, x in v.items()}
    if isinstance(v, float) and v == int(v):
        return int(v)
    return v


def _close(a, b):
    if isinstance(a, list) and isinstance(b, list):
        return len(a) == len(b) and all(_close(x, y) for x, y in zip(a, b))
    if isinstance(a, dict) and isinstance(b, dict):
        return a.keys() == b.keys() and all(_close(a[k], b[k]) for k in a)
    if isinstance(a, float) or isinstance(b, float):
        try:
            import math

            # exact rationals on the symbolic side vs IEEE doubles on the concrete side
            return math.isclose(float(a), float(b), rel_tol=1e-9, abs_tol=1e-9)
        except (TypeError, ValueError):
            return a == b
    return a == b


def same_observations(a, b):
    return _close(_norm(a), _norm(b))


class Concrete:
    """Concrete context: the same harness body run on plain Python values against the
    repository's code without builtin shims (replay / engine validation)."""

    symbolic = False

    def __init__(self, values):
        self.values = values
        self.observations = []
        self.tags = {}
        self.failed = []  # labels of obligations that failed

    def _value(self, name):
        if name not in self.values and self.failed:
            # the symbolic run stopped at the obligation that already failed here; inputs created after it are not in the model
            raise _Abort()
        return self.values[name]

    def int(self, name, lo=None, hi=None):
        v = self._value(name)
        if (lo is not None and v < lo) or (hi is not None and v > hi):
            raise _Abort()
        return v

    def real(self, name):
        v = self._value(name)
        if isinstance(v, (list, tuple)):
            from fractions import Fraction

            return Fraction(v[0], v[1])
        return v

    def slice(self, a, b, c):
        return builtins.slice(a, b, c)

    def assume(self, c):
        if not bool(c):
            raise _Abort()

    def observe(self, name, value):
        self.observations.append((name, plain(value)))

    def tag(self, key, value):
        self.tags[key] = value

    def ensure(self, label, cond, site=None):
        ok = bool(cond)
        if not ok:
            self.failed.append(dict(label=label, site=site or self.tags.get("site")))
        return ok

    def run(self, body):
        """-> dict(status= 'ok' | 'violated' | 'precondition' | 'exception', ...)"""
        try:
            post = body(self)
        except _Abort:
            if self.failed:
                return dict(status="violated", failed=self.failed)
            return dict(status="precondition")
        except Exception as ex:
            import traceback

            tb = traceback.extract_tb(ex.__traceback__)
            where = [f"{f.filename.rsplit('/', 1)[-1]}:{f.lineno}:{f.name}" for f in tb[-3:]]
            return dict(status="exception", error=f"{type(ex).__name__}: {str(ex)[:200]}", where=where,
                        site=self.tags.get("site"))
        if post is not None:
            self.ensure("post", post)
        if self.failed:
            return dict(status="violated", failed=self.failed)
        return dict(status="ok")
