"""Reference model of Python/NumPy basic indexing and mode-independent logic combinators.

Everything here works on plain ints (concrete replay) and on proxies (symbolic run), so the
same harness body is both the verification condition generator and the replay oracle.
``slice_indices``/``range_len`` live in core (they are also SymSlice.indices); selftest.py
validates them exhaustively against CPython for small values.
"""
from __future__ import annotations

import z3

from .core import SymBool, SymInt, SymReal, _wrapb, _wrapi, _z, range_len, slice_indices, zbool


def _sym(*xs):
    return any(isinstance(x, (SymBool, SymInt, SymReal, z3.ExprRef)) for x in xs)


def AND(*xs):
    xs = [x for x in xs]
    if not _sym(*xs):
        return all(bool(x) for x in xs)
    return _wrapb(z3.And(*[zbool(x) for x in xs]))


def OR(*xs):
    if not _sym(*xs):
        return any(bool(x) for x in xs)
    return _wrapb(z3.Or(*[zbool(x) for x in xs]))


def NOT(x):
    if not _sym(x):
        return not bool(x)
    return _wrapb(z3.Not(zbool(x)))


def IMPLIES(a, b):
    if not _sym(a, b):
        return (not bool(a)) or bool(b)
    return _wrapb(z3.Implies(zbool(a), zbool(b)))


def IFF(a, b):
    if not _sym(a, b):
        return bool(a) == bool(b)
    return _wrapb(zbool(a) == zbool(b))


def ITE(c, a, b):
    """value-level if-then-else on ints (no fork)"""
    if not _sym(c):
        return a if bool(c) else b
    if isinstance(a, (SymReal, float)) or isinstance(b, (SymReal, float)):
        from .core import _wrapr

        return _wrapr(z3.If(zbool(c), SymReal._r(a), SymReal._r(b)))
    return _wrapi(z3.If(zbool(c), _z(a), _z(b)))


def EQ(a, b):
    """structural equality of (nested tuples of) ints / None / slices, without forking"""
    if isinstance(a, (tuple, list)) or isinstance(b, (tuple, list)):
        if not (isinstance(a, (tuple, list)) and isinstance(b, (tuple, list))) or len(a) != len(b):
            return False
        return AND(*[EQ(x, y) for x, y in zip(a, b)]) if len(a) else True
    if a is None or b is None:
        return a is None and b is None
    if hasattr(a, "start") and hasattr(a, "stop") and hasattr(b, "start"):
        return EQ((a.start, a.stop, a.step), (b.start, b.stop, b.step))
    r = a == b
    return r


def MIN(a, b):
    return ITE(a < b, a, b)


def MAX(a, b):
    return ITE(a > b, a, b)


# ---- slices as (start, stop, step) triples normalised by slice_indices ------------


def triple(s, n):
    """normalised (start, stop, step) of slice s over an axis of length n (forks)"""
    return slice_indices(s.start, s.stop, s.step, n)


def sel_len(t):
    return range_len(*t)


def selected(p, t):
    """is position p selected by normalised triple t?  (step must be concrete or the
    modulus is nonlinear)"""
    a, b, st = t
    if isinstance(st, int):
        if st > 0:
            return AND(p >= a, p < b, (p - a) % st == 0)
        return AND(p <= a, p > b, (a - p) % (-st) == 0)
    return OR(AND(st > 0, p >= a, p < b, (p - a) % st == 0), AND(st < 0, p <= a, p > b, (a - p) % (-st) == 0))


def kth(t, k):
    return t[0] + k * t[2]


def same_selection(t1, t2):
    """two normalised triples select the same position sequence"""
    l1, l2 = sel_len(t1), sel_len(t2)
    return AND(l1 == l2, IMPLIES(l1 >= 1, t1[0] == t2[0]), IMPLIES(l1 >= 2, t1[2] == t2[2]))


def cumsum0(seq):
    out = [0]
    for c in seq:
        out.append(out[-1] + c)
    return out


def locate(p, chunks):
    """(block, offset) of global position p over chunk sizes; forks on the block; p must be
    in range (else the last block is returned)"""
    off = 0
    for b in range(len(chunks)):
        if b == len(chunks) - 1 or p < off + chunks[b]:
            return b, p - off
        off = off + chunks[b]
    raise AssertionError("empty chunks")


# ---- views: reference semantics of NumPy basic indexing as index provenance ----------


class View:
    """Where each element of a basic-indexing result comes from.

    out : list of output axes, each ('new', 1) or ('ax', length)
    src : per source axis (base, step, j) -- source position = base + step * out_index[j]
          (j None: the axis was consumed by an integer index)
    """

    def __init__(self, out, src):
        self.out = list(out)
        self.src = list(src)

    @property
    def shape(self):
        return tuple(o[1] for o in self.out)


def view_identity(shape):
    return View([("ax", n) for n in shape], [(0, 1, j) for j in range(len(shape))])


def view_index(v, index):
    """Apply a basic index tuple (ints, slices with concrete step, None; no Ellipsis, padded
    or not) to a view, NumPy semantics.  Integer indices must be in range (caller asserts)."""
    index = tuple(index)
    n_real = sum(1 for i in index if i is not None)
    index = index + (slice(None),) * (len(v.out) - n_real)
    new_out = []
    remap = {}  # old out axis -> ('drop', offset) | ('keep', new_j, start, step)
    j_old = 0
    for ind in index:
        if ind is None:
            new_out.append(("new", 1))
            continue
        kind, length = v.out[j_old]
        if hasattr(ind, "start"):
            t = slice_indices(ind.start, ind.stop, ind.step, length)
            remap[j_old] = ("keep", len(new_out), t[0], t[2])
            new_out.append((kind if kind == "ax" else "new", range_len(*t)))
        else:
            i = ITE(ind < 0, ind + length, ind)
            remap[j_old] = ("drop", i)
        j_old += 1
    new_src = []
    for base, step, j in v.src:
        if j is None:
            new_src.append((base, step, None))
            continue
        r = remap[j]
        if r[0] == "drop":
            new_src.append((base + step * r[1], step, None))
        else:
            new_src.append((base + step * r[2], step * r[3], r[1]))
    return View(new_out, new_src)


def int_in_range(ind, length):
    return AND(ind >= -length, ind < length)


def views_equal(a, b):
    """Same shape and same provenance for every output element."""
    if len(a.out) != len(b.out) or len(a.src) != len(b.src):
        return False
    conj = [x[1] == y[1] for x, y in zip(a.out, b.out)]
    nonempty = AND(*[x[1] >= 1 for x in a.out]) if a.out else True
    for (b1, s1, j1), (b2, s2, j2) in zip(a.src, b.src):
        if j1 is None and j2 is None:
            conj.append(IMPLIES(nonempty, b1 == b2))
        elif j1 is None or j2 is None:
            # one side still iterates an output axis: equal only if that axis has length 1
            j = j1 if j1 is not None else j2
            ln = (a if j1 is not None else b).out[j][1]
            conj.append(IMPLIES(nonempty, AND(b1 == b2, ln == 1)))
        else:
            if j1 != j2:
                return False
            ln = a.out[j1][1]
            conj.append(IMPLIES(nonempty, AND(b1 == b2, IMPLIES(ln >= 2, s1 == s2))))
    return AND(*conj)
