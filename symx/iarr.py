"""Short one-dimensional arrays of (possibly symbolic) integers / booleans, for block kernels that do NumPy array
arithmetic on *index* arrays (dask's integer-array indexing kernels): element-wise arithmetic and comparisons on the
engine's proxies, ``np.where`` / ``np.cumsum`` / ``np.zeros_like`` on them, and boolean-mask selection, which forks on
every mask entry (the selected length is a decision of the path).  The length is concrete; the entries are unbounded."""
from __future__ import annotations

import numpy as np

from . import core
from .core import SymBool, SymInt, _ite


def _b2i(v):
    """bool entry -> 0/1 integer (symbolic booleans merge with ite)"""
    if isinstance(v, SymBool):
        return _ite(v, 1, 0)
    if isinstance(v, (bool, np.bool_)):
        return 1 if v else 0
    return v


class IArr(list):
    """list subclass, so that a symbolic array (symx.sarr.SArr) indexed with it takes the entries as positions"""

    dtype = np.dtype("int64")
    ndim = 1

    @property
    def shape(self):
        return (len(self),)

    @property
    def size(self):
        return len(self)

    def astype(self, *a, **k):
        return IArr(self)

    def _zip(self, o, f):
        if isinstance(o, (list, tuple, np.ndarray)):
            o = list(o)
            if len(o) == 1 and len(self) != 1:
                o = o * len(self)
            if len(o) != len(self):
                raise ValueError("operands could not be broadcast together")
            return IArr(f(a, b) for a, b in zip(self, o))
        return IArr(f(a, o) for a in self)

    def __add__(self, o):
        return self._zip(o, lambda a, b: _b2i(a) + _b2i(b))

    __radd__ = __add__

    def __iadd__(self, o):
        self[:] = self.__add__(o)
        return self

    def __sub__(self, o):
        return self._zip(o, lambda a, b: _b2i(a) - _b2i(b))

    def __rsub__(self, o):
        return self._zip(o, lambda a, b: _b2i(b) - _b2i(a))

    def __lt__(self, o):
        return self._zip(o, lambda a, b: a < b)

    def __le__(self, o):
        return self._zip(o, lambda a, b: a <= b)

    def __gt__(self, o):
        return self._zip(o, lambda a, b: a > b)

    def __ge__(self, o):
        return self._zip(o, lambda a, b: a >= b)

    def __and__(self, o):
        return self._zip(o, lambda a, b: a & b)

    def __or__(self, o):
        return self._zip(o, lambda a, b: a | b)

    def any(self):
        out = False
        for v in self:
            out = v | out if isinstance(v, SymBool) or isinstance(out, SymBool) else (bool(v) or out)
        return out

    def __getitem__(self, k):
        if isinstance(k, IArr):
            # boolean mask: which entries stay is decided per entry (a fork each when symbolic)
            if len(k) != len(self):
                raise IndexError("boolean index did not match")
            return IArr(v for v, keep in zip(self, k) if bool(keep))
        if isinstance(k, slice):
            return IArr(list.__getitem__(self, k))
        return list.__getitem__(self, k)


class INp:
    """the few NumPy entry points those kernels use, on IArr; everything else is NumPy"""

    def __getattr__(self, k):
        return getattr(np, k)

    @staticmethod
    def asarray(x, *a, **k):
        return x if isinstance(x, IArr) or hasattr(x, "_at") else np.asarray(x, *a, **k)

    @staticmethod
    def where(c, a, b):
        if not isinstance(c, IArr):
            return np.where(c, a, b)
        la = list(a) if isinstance(a, (list, tuple, np.ndarray)) else [a] * len(c)
        lb = list(b) if isinstance(b, (list, tuple, np.ndarray)) else [b] * len(c)
        return IArr(_ite(ci, _b2i(x), _b2i(y)) if isinstance(ci, SymBool) else (_b2i(x) if ci else _b2i(y)) for ci, x, y in zip(c, la, lb))

    @staticmethod
    def cumsum(x, *a, **k):
        if not isinstance(x, IArr):
            return np.cumsum(x, *a, **k)
        out, tot = IArr(), 0
        for v in x:
            tot = tot + _b2i(v)
            out.append(tot)
        return out

    @staticmethod
    def zeros_like(x, *a, **k):
        return IArr([0] * len(x)) if isinstance(x, IArr) else np.zeros_like(x, *a, **k)
