from __future__ import annotations

import argparse
import os
import sys


def main(argv=None):
    ap = argparse.ArgumentParser(prog="check")
    ap.add_argument("property")
    ap.add_argument("--tier", default=os.environ.get("VERIF_TIER", "quick"), choices=["quick", "thorough"])
    ap.add_argument("--replay")
    ap.add_argument("--jobs", type=int, default=None)
    ap.add_argument("--only")
    ap.add_argument("-v", "--verbose", action="store_true")
    a = ap.parse_args(argv)
    seed = int(os.environ.get("VERIF_SEED", "0") or 0)
    from . import runner

    if a.replay:
        return runner.replay_file(a.replay)
    return runner.run_property(f"harness.{a.property}", tier=a.tier, seed=seed, jobs=a.jobs, only=a.only,
                               verbose=a.verbose)


if __name__ == "__main__":
    sys.exit(main())
