"""Symbolic expression nodes: instances of the repository's own expression classes whose
methods are the *cloned* (shimmed-globals) versions of the repository's code, created without
running ``Expr.__new__`` (which content-hashes every operand and would force every symbolic
size concrete).

* ``NodeSpace.subclass(cls)`` builds, once per world, ``Sym<cls>(cls)``: for every function,
  property and cached_property found along ``cls.__mro__`` that is defined in a world module,
  the first definition in MRO order is re-created on the cloned code object.  Everything else
  (``Expr.__getattr__`` operand lookup, ``dependencies()``, ...) is inherited unchanged.
* ``NodeSpace.make(cls, *operands, **kw)`` fills operands from ``_parameters``/``_defaults``
  exactly like ``Expr.__new__`` and gives the node a fresh deterministic name
  (``<cls>#<k>``, k = creation order on the current path) instead of a content hash.
* ``ClassProxy``: what the *name* of an expression class resolves to inside cloned code.
  Calling it makes a symbolic node; ``isinstance``/``issubclass`` delegate to the real class;
  attribute access delegates to the Sym subclass; ``type(node)`` (shimmed) returns the proxy,
  so ``type(x) is Rechunk`` and ``type(self)(*operands)`` keep their meaning.

Limitations (stated in DESIGN): zero-argument ``super()`` inside a cloned method resolves to the
real parent's *uncloned* method; names are not content hashes, so code paths that compare
names of separately built but structurally equal nodes see them as different.
"""
from __future__ import annotations

import builtins
import functools
import hashlib
import types

from .core import SymBool, SymInt, SymReal, SymSlice


class _SymAttr:
    """Non-data descriptor standing in for property / cached_property on Sym subclasses:
    an entry in the instance ``__dict__`` (harness override or cache) wins."""

    def __init__(self, name, fn, cached):
        self.name, self.fn, self.cached = name, fn, cached
        self.__doc__ = getattr(fn, "__doc__", None)

    def __get__(self, inst, owner=None):
        if inst is None:
            return self
        d = inst.__dict__
        if self.name in d:
            return d[self.name]
        v = self.fn(inst)
        if self.cached:
            d[self.name] = v
        return v


class _ProxyMeta(type):
    def __instancecheck__(cls, obj):
        return isinstance(obj, cls._real)

    def __subclasscheck__(cls, sub):
        sub = getattr(sub, "_real", sub)
        return issubclass(sub, cls._real)

    def __call__(cls, *a, **k):
        return cls._space.make(cls._real, *a, **k)

    def __getattr__(cls, k):
        if k.startswith("__") and k.endswith("__") and not k.startswith("__dask_"):
            raise AttributeError(k)
        return getattr(cls._space.subclass(cls._real), k)

    def __repr__(cls):
        return f"<symx proxy of {cls._real.__module__}.{cls._real.__qualname__}>"


def _unwrap(obj):
    """-> (kind, function) for function-like class attributes; kind in fn/prop/cprop/static/class"""
    if isinstance(obj, types.FunctionType):
        return "fn", obj
    if isinstance(obj, functools.cached_property):
        return "cprop", obj.func
    if isinstance(obj, property):
        return ("prop", obj.fget) if obj.fset is None and obj.fdel is None else (None, None)
    if isinstance(obj, staticmethod):
        return "static", obj.__func__
    if isinstance(obj, classmethod):
        return "class", obj.__func__
    return None, None


def cloned_class_dict(w, real):
    """{name: clone} for every function / property / cached_property along real.__mro__ that is
    defined in a world module (first definition in MRO order wins, as in normal lookup)."""
    d = {}
    for klass in real.__mro__:
        for k, v in klass.__dict__.items():
            if k in d or k in ("__new__", "__init_subclass__", "__dict__", "__weakref__"):
                continue
            kind, f = _unwrap(v)
            if kind is None:
                # remember non-function attributes so that an earlier-in-MRO plain attribute
                # is not shadowed by a clone of a later class's function
                if not (k.startswith("__") and k.endswith("__")):
                    d.setdefault(k, _KEEP)
                continue
            c = w._clone(f) if isinstance(f, types.FunctionType) else f
            if c is f:  # not a function of a world module (decided by the module its globals belong to)
                d.setdefault(k, _KEEP)
                continue
            if kind == "fn":
                d[k] = c
            elif kind == "cprop":
                d[k] = _SymAttr(k, c, True)
            elif kind == "prop":
                d[k] = _SymAttr(k, c, False)
            elif kind == "static":
                d[k] = staticmethod(c)
            elif kind == "class":
                d[k] = classmethod(c)
    return {k: v for k, v in d.items() if v is not _KEEP}


def clone_class(w, real):
    """Subclass of an ordinary (non-expression) class whose methods run the cloned code."""
    return type("Sym" + real.__name__, (real,), cloned_class_dict(w, real))


_GUARDED = False


def _install_constructor_guard(expr_base):
    """A real (content-hashing, singleton-registering) constructor reached with a symbolic node or value means some
    module is missing from the world: fail loudly instead of silently mixing real and symbolic nodes."""
    global _GUARDED
    if _GUARDED:
        return
    _GUARDED = True
    orig = expr_base.__new__

    def guarded(cls, *a, **k):
        from .core import HarnessError, is_symbolic

        def sym(x):
            t = builtins.type(x)
            # (exact types: isinstance(<builtin slice>, SymSlice) is true by design of the slice shim)
            if t in (SymInt, SymReal, SymBool) or (t is SymSlice and any(builtins.type(m) in (SymInt, SymReal) for m in x._tup())) \
                    or hasattr(t, "_symx_real"):
                return True
            if isinstance(x, (tuple, list)):
                return any(sym(y) for y in x)
            return False

        if not hasattr(cls, "_symx_real") and any(sym(x) for x in a):
            raise HarnessError(f"uncloned constructor {cls.__module__}.{cls.__name__} reached with symbolic operands "
                               "(a module is missing from the harness world)")
        return orig(cls, *a, **k)

    expr_base.__new__ = guarded


class NodeSpace:
    def __init__(self, world, expr_base):
        _install_constructor_guard(expr_base)
        self.world = world
        self.expr_base = expr_base
        self._sub = {}
        self._proxy = {}
        self.counter = 0
        self.created = []

    # per path
    def reset(self):
        self.counter = 0
        self.created = []

    def is_expr_class(self, v):
        return isinstance(v, type) and not isinstance(v, _ProxyMeta) and issubclass(v, self.expr_base)

    def proxy(self, real):
        real = getattr(real, "_symx_real", real)
        if real not in self._proxy:
            self._proxy[real] = _ProxyMeta("P_" + real.__name__, (), dict(_real=real, _space=self))
        return self._proxy[real]

    def subclass(self, real):
        real = getattr(real, "_symx_real", real)
        if real in self._sub:
            return self._sub[real]
        d = cloned_class_dict(self.world, real)
        # names: the class's own _name logic runs (cloned); only the content hash under it is
        # replaced by a structural digest of the operands (sym_tokenize), so structurally equal
        # nodes still share a name and naming conventions ("rechunk-merge-", ...) are the repo's
        # ... unless the repository class defines its own __dask_tokenize__ (Blockwise, Elemwise, Reduction, PartialReduce,
        # FromArray ...): then that (cloned) method decides *what* goes into the token -- its tokenize calls resolve to the
        # structural digest -- so a tokenizer that leaves an operand out makes two different nodes share a name here too
        own_tok = None
        for klass in real.__mro__:
            if "__dask_tokenize__" in klass.__dict__:
                if (klass.__module__ or "") in self.world.ns and "__dask_tokenize__" in d:
                    own_tok = d["__dask_tokenize__"]
                break

        def _token(self, own_tok=own_tok):
            if own_tok is not None:
                object.__setattr__(self, "_determ_token", None)
                try:
                    return sym_tokenize(real.__name__, own_tok(self))
                finally:
                    object.__setattr__(self, "_determ_token", None)
            return sym_tokenize(real.__name__, *self.operands)

        d["deterministic_token"] = _SymAttr("deterministic_token", _token, True)
        d["_symx_real"] = real
        d["__repr__"] = lambda self: f"<{real.__name__} {self.__dict__.get('_name', '?')}>"
        if not any("__str__" in k.__dict__ for k in real.__mro__ if (k.__module__ or "").startswith("dask_array")):
            d["__str__"] = d["__repr__"]
        d["__hash__"] = lambda self: hash(self._name)
        d["__reduce__"] = lambda self: (_unpicklable, ())
        space = self
        # construction through the class itself (e.g. dask's Expr.substitute_parameters doing
        # type(self)(*operands) in uncloned code) also yields a symbolic node
        d["__new__"] = lambda cls, *a, **k: space.make(real, *a, **k)
        sub = type("Sym" + real.__name__, (real,), d)
        self._sub[real] = sub
        return sub

    def make(self, real, *args, _determ_token=None, _symx_name=None, _symx_attrs=None, **kwargs):
        real = getattr(real, "_symx_real", real)
        sub = self.subclass(real)
        operands = list(args)
        for p in real._parameters[len(operands):]:
            if p in kwargs:
                operands.append(kwargs.pop(p))
            else:
                operands.append(real._defaults[p])
        if kwargs:
            raise TypeError(f"{real.__name__}: unexpected operands {sorted(kwargs)}")
        # as dask's Expr.__new__: collections among the operands are replaced by their expressions
        operands = [o.expr if (not isinstance(o, self.expr_base) and hasattr(o, "expr") and
                               builtins.type(o).__name__ != "Delayed") else o for o in operands]
        inst = object.__new__(sub)
        object.__setattr__(inst, "_determ_token", None)
        object.__setattr__(inst, "operands", operands)
        self.counter += 1
        if _symx_name:
            inst.__dict__["_name"] = _symx_name
        if _determ_token:
            inst.__dict__["deterministic_token"] = _determ_token
        if _symx_attrs:
            inst.__dict__.update(_symx_attrs)
        self.created.append(inst)
        return inst

    # ---- shims installed in the cloned builtins / namespaces
    def sym_type(self):
        space = self

        class _TypeMeta(type):
            def __instancecheck__(cls, obj):
                return isinstance(obj, builtins.type)

            def __subclasscheck__(cls, sub):
                return issubclass(sub, builtins.type)

        class sym_type(metaclass=_TypeMeta):
            def __new__(cls, *a, **k):
                if len(a) == 1 and not k:
                    t = builtins.type(a[0])
                    # a symbolic int *is* an int to the code under test (`type(c) is int`)
                    # ... and the clones' `int` is the shim, so an exact int answers with the same object
                    if t is SymInt or t is builtins.int:
                        return space.world.builtins.get("int", builtins.int)
                    if t is SymReal or t is builtins.float:
                        return space.world.builtins.get("float", builtins.float)
                    real = t.__dict__.get("_symx_real") if isinstance(t, builtins.type) else None
                    if real is not None:
                        return space.proxy(real)
                    return t
                return builtins.type(*a, **k)

        return sym_type

    def wrap(self, v):
        """namespace value -> proxy if it is an expression class"""
        if self.is_expr_class(v):
            return self.proxy(v)
        return v


_KEEP = object()


def _unpicklable():
    raise TypeError("symbolic nodes are not picklable")


def sym_dumps(obj, *a, **k):
    """stand-in for pickle-based name payloads (e.g. io._from_map._dumps5)"""
    return sym_tokenize(obj).encode()


def sym_hash_hex(buf, *a, **k):
    return hashlib.md5(buf if isinstance(buf, bytes) else repr(buf).encode()).hexdigest()[:12]


def sym_tokenize(*args, **kwargs):
    """dask.base.tokenize stand-in for cloned code: a deterministic digest of the *structure*
    of its arguments (symbolic values by their term text), never hashing a proxy."""

    def norm(v):
        if isinstance(v, (SymInt, SymReal, SymBool)):
            from . import core as _core

            E = _core.ENGINE
            if E is not None and getattr(E, "symbolic", False):
                return f"<z{E.canon(v.z)}>"  # terms the path condition forces equal share a token (as equal values share a hash)
            return f"<z{v.z.get_id()}>"  # hash-consed: equal terms share an id (sexpr() would unfold DAGs)
        if isinstance(v, SymSlice) or builtins.type(v) is builtins.slice:
            return ("slice", norm(v.start), norm(v.stop), norm(v.step))
        if isinstance(v, (tuple, list)):
            return tuple(norm(x) for x in v)
        if isinstance(v, dict):
            return tuple(sorted((str(k), norm(x)) for k, x in v.items()))
        if hasattr(builtins.type(v), "_symx_real"):
            return ("node", v._name)
        if isinstance(v, (str, int, float, bool)) or v is None:
            return v
        if isinstance(v, (types.FunctionType, types.BuiltinFunctionType, builtins.type)):
            return getattr(v, "__qualname__", repr(v))
        tok = getattr(v, "_symx_token", None)
        if tok is not None:
            return tok
        try:
            import numpy as np

            if isinstance(v, (np.ndarray, np.generic, np.dtype)):
                return repr(v)
        except Exception:
            pass
        return (builtins.type(v).__name__, id(v))
    return hashlib.md5(repr((norm(args), norm(kwargs))).encode()).hexdigest()[:10]
