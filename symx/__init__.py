"""symx: symbolic execution of the repository's own Python function objects over z3."""
