"""Symbolic arrays: the value domain on which the repository's task graphs are executed.

An ``SArr`` has a shape (ints or SymInts; the *rank* is concrete) and an element function
``at(idx) -> z3 Real term`` for an index vector of z3 Int terms.  Leaves are uninterpreted
functions of the source position, so two arrays are equal for *every* source content iff
their element terms are equal for a skolem index -- which the solver decides.

The operations below are the NumPy definitions (basic indexing, concatenation, transpose,
expand_dims, broadcast_to, flip, element-wise arithmetic with broadcasting) written once,
directly from the NumPy documentation; they are the oracle.  Graph tasks emitted by the
repository's ``_layer`` methods are executed on the same domain (graph.py), so a wrong
offset / block / order in a layer shows up as a different element term.
"""
from __future__ import annotations

import builtins
import itertools
import numbers

import numpy as np
import z3

from . import core
from .core import SymBool, SymInt, SymSlice, _wrapb, _wrapi, _z, range_len, slice_indices, zbool

_leaf_counter = itertools.count()


class BoundsLog:
    """Obligations collected while executing (integer index in range, reads inside a store)."""

    def __init__(self):
        self.items = []  # (label, condition)

    def add(self, label, cond):
        self.items.append((label, cond))


def _is_slice(x):
    return isinstance(x, SymSlice) or builtins.type(x) is builtins.slice


def _concrete_one(d):
    return isinstance(d, int) and d == 1


class SArr:
    __array_priority__ = 1000

    def __init__(self, shape, at, dtype=None, log=None, kind="array", struct=None):
        self.shape = tuple(shape)
        self._at = at
        self.dtype = dtype or np.dtype("f8")
        self.log = log
        self.kind = kind
        # structure kept for scans (accumulate / reduce need more than an element function):
        #   ("aff", Leaf, coords)  coords[k] = ("fix", base) | ("lin", base, stride, out_axis) per leaf axis
        #   ("cat", axis, [parts]) concatenation of structured parts along one axis
        self.struct = struct

    # ---- basics
    @property
    def ndim(self):
        return len(self.shape)

    @property
    def size(self):
        out = 1
        for d in self.shape:
            out = out * d
        return out

    @property
    def nbytes(self):
        return self.size * self.dtype.itemsize

    def at(self, idx):
        idx = tuple(idx)
        assert len(idx) == self.ndim, (len(idx), self.ndim)
        return self._at(tuple(_z(i) if not isinstance(i, z3.ExprRef) else i for i in idx))

    def copy(self, *a, **k):
        # a distinct object: a ufunc writing into the copy (out=) must not be seen through the original
        out = SArr(self.shape, self._at, self.dtype, self.log, self.kind, self.struct)
        for extra in ("lemmas", "_symx_token", "is_bool"):
            if hasattr(self, extra):
                setattr(out, extra, getattr(self, extra))
        return out

    def __len__(self):
        if not self.shape:
            raise TypeError("len() of unsized object")
        return self.shape[0]

    def _derive(self, shape, at, kind=None, struct=None):
        return SArr(shape, at, self.dtype, self.log, kind or "array", struct)

    def astype(self, dtype=None, *a, **k):
        # values are exact reals (rounding to the target type is not modelled); the advertised dtype is followed
        if dtype is None or np.dtype(dtype) == self.dtype:
            return self
        out = SArr(self.shape, self._at, np.dtype(dtype), self.log, self.kind, self.struct)
        for extra in ("lemmas", "_symx_token"):
            if hasattr(self, extra):
                setattr(out, extra, getattr(self, extra))
        return out

    def view(self, *a, **k):
        """ndarray.view: a class argument (np.ma.MaskedArray ...) changes nothing here; a dtype of another item size
        reinterprets the bytes along the last axis -- modelled on shapes, with uninterpreted content that is a function of
        the elements it is made of (so a block's view and the whole array's view of the same bytes agree)"""
        dt = a[0] if a else k.get("dtype")
        try:
            dt = np.dtype(dt) if dt is not None and not isinstance(dt, type) or (isinstance(dt, type) and issubclass(dt, np.generic)) else None
        except TypeError:
            dt = None
        if dt is None or dt.itemsize == self.dtype.itemsize:
            if dt is not None and dt != self.dtype:
                return self.astype(dt)
            return self
        if self.ndim == 0:
            raise ValueError("Changing the dtype of a 0d array is only supported if the itemsize is unchanged")
        old, new = self.dtype.itemsize, dt.itemsize
        src, last = self, self.shape[-1]
        if old > new:
            if old % new:
                raise ValueError("item sizes do not divide")
            r = old // new
            f = z3.Function(f"viewsplit_{old}_{new}", z3.RealSort(), z3.IntSort(), z3.RealSort())
            shape = self.shape[:-1] + (last * r,)
            return SArr(shape, lambda idx: f(src._at(tuple(idx[:-1]) + (idx[-1] / r,)), idx[-1] % r), dt, self.log)
        if new % old:
            raise ValueError("item sizes do not divide")
        r = new // old
        if self.log is not None:
            self.log.add("view: last axis is a multiple of the item-size ratio", core._wrapb(_z(last) % r == 0))
        g = z3.Function(f"viewjoin_{old}_{new}", *([z3.RealSort()] * r + [z3.RealSort()]))
        shape = self.shape[:-1] + (last // r if isinstance(last, int) else core._wrapi(_z(last) / r),)
        return SArr(shape, lambda idx: g(*[src._at(tuple(idx[:-1]) + (idx[-1] * r + j,)) for j in range(r)]), dt, self.log)

    def sum(self, axis=None, dtype=None, out=None, keepdims=False, **k):
        return self.reduce_axis(axis, "add", keepdims)

    def __array__(self, *a, **k):
        raise core.Unsupported("symbolic array coerced to a NumPy array (unsupported kernel step)")

    # ---- NumPy basic indexing (ints, slices, None, Ellipsis)
    def __getitem__(self, index):
        if not isinstance(index, tuple):
            index = (index,)
        index = list(index)
        if any(i is Ellipsis for i in index):
            k = next(j for j, i in enumerate(index) if i is Ellipsis)
            n_real = sum(1 for i in index if i is not None and i is not Ellipsis)
            index[k:k + 1] = [slice(None)] * (self.ndim - n_real)
        n_real = sum(1 for i in index if i is not None)
        if n_real > self.ndim:
            raise IndexError("too many indices for array")
        index = index + [slice(None)] * (self.ndim - n_real)
        new_shape = []
        plan = []  # per source axis: ('int', pos) | ('slice', start, step, out_axis)
        for ind in index:
            if ind is None:
                new_shape.append(1)
                continue
            n = self.shape[len(plan)]
            if _is_slice(ind):
                st = ind.step
                if isinstance(st, SymInt):
                    st = int(st)
                a, b, s = slice_indices(ind.start, ind.stop, st, n)
                plan.append(("slice", a, s, len(new_shape)))
                new_shape.append(range_len(a, b, s))
            elif isinstance(ind, (list, np.ndarray)) and not isinstance(ind, SArr):
                # one-dimensional integer array index (take along this axis): positions may be symbolic
                sel = [v for v in (np.asarray(ind).tolist() if isinstance(ind, np.ndarray) else ind)]
                if any(isinstance(v, (list, tuple)) for v in sel) or any(isinstance(v, (bool, np.bool_)) for v in sel):
                    raise NotImplementedError("SArr index: only 1-d integer arrays")
                pos = []
                for v in sel:
                    if self.log is not None:
                        self.log.add("array index entry in range", core._wrapb(z3.And(_z(v) >= -_z(n), _z(v) < _z(n))))
                    pos.append(core._ite(v < 0, v + n, v))
                plan.append(("take", tuple(pos), len(new_shape)))
                new_shape.append(len(pos))
            elif isinstance(ind, (numbers.Integral, SymInt)):
                ok = core._wrapb(z3.And(_z(ind) >= -_z(n), _z(ind) < _z(n)))
                if self.log is not None:
                    self.log.add("integer index in range", ok)
                elif ok is not True and not bool(ok):
                    raise IndexError("index out of range")
                pos = core._ite(ind < 0, ind + n, ind)
                plan.append(("int", pos))
            else:
                raise NotImplementedError(f"SArr index element {ind!r}")
        takes = [k for k, p in enumerate(plan) if p[0] == "take"]
        if len(takes) >= 2:
            return self._pointwise(plan, takes, new_shape, index)
        src = self

        def at(idx, plan=tuple(plan), src=src):
            out = []
            for p in plan:
                if p[0] == "int":
                    out.append(_z(p[1]))
                elif p[0] == "take":
                    k = idx[p[2]]
                    e = _z(p[1][-1]) if p[1] else z3.IntVal(0)
                    for j in range(len(p[1]) - 2, -1, -1):
                        e = z3.If(k == j, _z(p[1][j]), e)
                    out.append(e)
                else:
                    out.append(_z(p[1]) + _z(p[2]) * idx[p[3]])
            return src._at(tuple(out))

        if any(p[0] == "take" for p in plan):
            return self._derive(new_shape, at)
        return self._derive(new_shape, at, struct=self._index_struct(plan, index, new_shape))

    def _pointwise(self, plan, takes, new_shape, index):
        """NumPy advanced indexing with two or more 1-d integer arrays: they are broadcast together and walked point by
        point; the points axis replaces the indexed axes where they stood if they are adjacent (integers count as advanced
        indices), and moves to the front otherwise.  None entries are not combined with this form."""
        if any(i is None for i in index):
            raise core.Unsupported("None together with several integer-array indices")
        n = max(len(plan[k][1]) for k in takes)
        for k in takes:
            if len(plan[k][1]) not in (1, n):
                raise IndexError("shape mismatch: indexing arrays could not be broadcast together")
        adv = [k for k, p in enumerate(plan) if p[0] in ("take", "int")]
        adjacent = adv == list(range(adv[0], adv[-1] + 1))
        # output axes: the slices in order, with the points axis inserted
        slice_axes = [k for k, p in enumerate(plan) if p[0] == "slice"]
        pts_at = sum(1 for k in slice_axes if k < adv[0]) if adjacent else 0
        lens = {k: new_shape[plan[k][3]] for k in slice_axes}
        out_axes = [("s", k) for k in slice_axes]
        out_axes.insert(pts_at, ("p", None))
        shape = [n if kind == "p" else lens[k] for kind, k in out_axes]
        src = self

        def at(idx, plan=tuple(plan), out_axes=tuple(out_axes), src=src, n=n):
            where = {k: j for j, (kind, k) in enumerate(out_axes) if kind == "s"}
            pj = idx[[j for j, (kind, _k) in enumerate(out_axes) if kind == "p"][0]]
            pos = []
            for k, p in enumerate(plan):
                if p[0] == "int":
                    pos.append(_z(p[1]))
                elif p[0] == "take":
                    vals = p[1] if len(p[1]) == n else p[1] * n
                    e = _z(vals[-1])
                    for j in range(n - 2, -1, -1):
                        e = z3.If(pj == j, _z(vals[j]), e)
                    pos.append(e)
                else:
                    pos.append(_z(p[1]) + _z(p[2]) * idx[where[k]])
            return src._at(tuple(pos))

        return self._derive(shape, at)

    def _index_struct(self, plan, index, new_shape):
        st = self.struct
        if st is None:
            return None
        if st[0] == "aff":
            coords = []
            for c in st[2]:
                if c[0] == "fix":
                    coords.append(c)
                    continue
                _k, base, stride, j = c
                p = plan[j]
                if p[0] == "int":
                    coords.append(("fix", base + stride * p[1]))
                else:
                    coords.append(("lin", base + stride * p[1], stride * p[2], p[3]))
            return ("aff", st[1], coords)
        if st[0] == "lin":
            try:
                return ("lin", [(c, p[tuple(index)]) for c, p in st[1]])
            except core.Unsupported:
                return None
        if st[0] == "cat":
            axis, parts = st[1], st[2]
            if any(i is None for i in index):
                return None
            p = plan[axis]
            if p[0] != "slice" or p[2] != 1:
                return None
            # unit-step slice along the concatenation axis: slice every part (clamped), same index elsewhere
            lo = p[1]
            hi = lo + new_shape[p[3]]
            off = 0
            new_parts = []
            for part in parts:
                n = part.shape[axis]
                a = core._ite(lo - off > 0, core._ite(lo - off < n, lo - off, n), 0)
                b = core._ite(hi - off > 0, core._ite(hi - off < n, hi - off, n), 0)
                b = core._ite(b < a, a, b)
                ix = list(index)
                ix[axis] = slice(a, b)
                new_parts.append(part[tuple(ix)])
                off = off + n
            return ("cat", p[3], new_parts)
        return None

    # ---- structural ops
    def transpose(self, *axes):
        if len(axes) == 1 and isinstance(axes[0], (tuple, list)):
            axes = tuple(axes[0])
        if not axes or axes == (None,):
            axes = tuple(reversed(range(self.ndim)))
        axes = tuple(int(a) % self.ndim if self.ndim else int(a) for a in axes)
        assert sorted(axes) == list(range(self.ndim))
        src = self

        def at(idx, axes=axes, src=src):
            back = [None] * len(axes)
            for j, a in enumerate(axes):
                back[a] = idx[j]
            return src._at(tuple(back))

        st = None
        if self.struct is not None and self.struct[0] == "aff":
            inv = {a: j for j, a in enumerate(axes)}
            st = ("aff", self.struct[1], [c if c[0] == "fix" else ("lin", c[1], c[2], inv[c[3]]) for c in self.struct[2]])
        return self._derive(tuple(self.shape[a] for a in axes), at, struct=st)

    @property
    def T(self):
        return self.transpose()

    def expand_dims(self, axes):
        if isinstance(axes, numbers.Integral):
            axes = (axes,)
        nd = self.ndim + len(axes)
        axes = sorted(int(a) % nd for a in axes)
        shape, keep = [], []
        it = iter(self.shape)
        for j in range(nd):
            if j in axes:
                shape.append(1)
            else:
                shape.append(next(it))
                keep.append(j)
        src = self
        st = None
        if self.struct is not None and self.struct[0] == "aff":
            st = ("aff", self.struct[1], [c if c[0] == "fix" else ("lin", c[1], c[2], keep[c[3]]) for c in self.struct[2]])
        return self._derive(shape, lambda idx, keep=tuple(keep), src=src: src._at(tuple(idx[j] for j in keep)), struct=st)

    def broadcast_to(self, shape):
        shape = tuple(shape)
        off = len(shape) - self.ndim
        assert off >= 0
        dims = tuple(self.shape)
        src = self

        def at(idx, off=off, dims=dims, src=src):
            out = []
            for j, d in enumerate(dims):
                if isinstance(d, int):
                    out.append(z3.IntVal(0) if d == 1 else idx[off + j])
                else:  # symbolic extent: pinned to 0 exactly when it is 1
                    out.append(z3.If(_z(d) == 1, z3.IntVal(0), idx[off + j]))
            return src._at(tuple(out))

        return self._derive(shape, at)

    def flip(self, axis):
        axis = int(axis) % self.ndim
        n = self.shape[axis]
        src = self

        def at(idx, axis=axis, n=n, src=src):
            idx = list(idx)
            idx[axis] = _z(n) - 1 - idx[axis]
            return src._at(tuple(idx))

        st = None
        if self.struct is not None and self.struct[0] == "aff":
            st = ("aff", self.struct[1], [("lin", c[1] + c[2] * (n - 1), -c[2], c[3]) if c[0] == "lin" and c[3] == axis else c
                                          for c in self.struct[2]])
        elif self.struct is not None and self.struct[0] == "cat":
            cax, parts = self.struct[1], self.struct[2]
            parts = [p.flip(axis) for p in parts]
            st = ("cat", cax, parts[::-1] if cax == axis else parts)
        return self._derive(self.shape, at, struct=st)

    # ---- scans: running / total "sum" along an axis, in terms of the leaf's uninterpreted prefix function
    def accumulate(self, axis, op="add"):
        axis = int(axis) % self.ndim
        st = self.struct
        n = self.shape[axis]
        if (st is None or st[0] not in ("lin", "cat", "aff")) and isinstance(n, int) and n <= 16 and op == "add":
            # a short concrete extent of computed values (e.g. a reduction feeding another scan): plain finite sums
            src = self

            def at_fin(idx, src=src, axis=axis, n=n):
                tot = None
                for k in range(n):
                    pos = list(idx)
                    pos[axis] = z3.IntVal(k)
                    term = z3.If(idx[axis] >= k, src._at(tuple(pos)), z3.RealVal(0))
                    tot = term if tot is None else tot + term
                return tot

            return SArr(self.shape, at_fin)
        if st is None:
            raise core.Unsupported("scan over an array that is neither a view of a source nor a concatenation of views")
        if st[0] == "lin":
            return _lin_apply(st[1], lambda p: p.accumulate(axis, op))
        if st[0] == "cat":
            cax, parts = st[1], st[2]
            if cax != axis:
                return _concatenate([p.accumulate(axis, op) for p in parts], axis=cax)
            out, carry = [], None
            for p in parts:
                acc = p.accumulate(axis, op)
                out.append(acc if carry is None else acc + carry)
                tot = p.reduce_axis(axis, op, keepdims=True)
                carry = tot if carry is None else carry + tot
            return _concatenate(out, axis=axis)
        leafobj, coords = st[1], st[2]
        L = next((k for k, c in enumerate(coords) if c[0] == "lin" and c[3] == axis), None)
        if L is None:
            raise core.Unsupported("scan along an axis that is not a source axis")
        _k, base, stride, _j = coords[L]
        if stride not in (1, -1):
            raise core.Unsupported("scan over a strided view")
        S = leafobj.prefix(L, op)

        def at(idx, coords=tuple(coords), L=L, base=base, stride=stride, S=S, axis=axis):
            pos = [(_z(c[1]) if c[0] == "fix" else _z(c[1]) + c[2] * idx[c[3]]) for c in coords]

            def Sat(k):
                q = list(pos)
                q[L] = k
                return S(*q)

            if stride == 1:
                return Sat(pos[L] + 1) - Sat(_z(base))
            return Sat(_z(base) + 1) - Sat(pos[L])

        return self._derive(self.shape, at)

    def reduce_axis(self, axis, op="add", keepdims=False):
        if isinstance(axis, (tuple, list)):
            if len(axis) != 1:
                raise core.Unsupported("reduction over several axes at once on a symbolic array")
            axis = axis[0]
        if axis is None:
            if self.ndim != 1:
                raise core.Unsupported("full reduction of a multi-dimensional symbolic array")
            axis = 0
        axis = int(axis) % self.ndim
        st = self.struct
        if st is None:
            n = self.shape[axis]
            if isinstance(n, int) and n <= 64:
                # a short concrete extent (e.g. stacked partial results): plain finite sum
                src = self

                def at(idx, src=src, axis=axis, n=n, keepdims=keepdims):
                    if not keepdims:
                        idx = list(idx[:axis]) + [None] + list(idx[axis:])
                    tot = z3.RealVal(0)
                    for k in range(n):
                        j = list(idx)
                        j[axis] = z3.IntVal(k)
                        tot = tot + src._at(tuple(j))
                    return tot

                shape = list(self.shape)
                if keepdims:
                    shape[axis] = 1
                else:
                    del shape[axis]
                return self._derive(shape, at)
            raise core.Unsupported("reduction over an array that is neither a view of a source nor a concatenation of views")
        if st[0] == "lin":
            return _lin_apply(st[1], lambda p: p.reduce_axis(axis, op, keepdims))
        if st[0] == "cat":
            cax, parts = st[1], st[2]
            if cax != axis:
                return _concatenate([p.reduce_axis(axis, op, keepdims) for p in parts], axis=cax if keepdims or cax < axis else cax - 1)
            tot = None
            for p in parts:
                t = p.reduce_axis(axis, op, keepdims)
                tot = t if tot is None else tot + t
            return tot
        leafobj, coords = st[1], st[2]
        L = next((k for k, c in enumerate(coords) if c[0] == "lin" and c[3] == axis), None)
        if L is None:
            raise core.Unsupported("reduction along an axis that is not a source axis")
        _k, base, stride, _j = coords[L]
        if stride not in (1, -1):
            raise core.Unsupported("reduction over a strided view")
        n = self.shape[axis]
        S = leafobj.prefix(L, op)
        lo = base if stride == 1 else base - n + 1
        hi = lo + n

        def at(idx, coords=tuple(coords), L=L, S=S, axis=axis, lo=lo, hi=hi, keepdims=keepdims):
            if not keepdims:
                idx = list(idx[:axis]) + [z3.IntVal(0)] + list(idx[axis:])
            pos = [(_z(c[1]) if c[0] == "fix" else _z(c[1]) + c[2] * idx[c[3]]) for c in coords]

            def Sat(k):
                q = list(pos)
                q[L] = k
                return S(*q)

            # an empty extent sums to the identity (0): S(lo) - S(lo)
            return z3.If(_z(hi) > _z(lo), Sat(_z(hi)) - Sat(_z(lo)), z3.RealVal(0))

        shape = list(self.shape)
        if keepdims:
            shape[axis] = 1
        else:
            del shape[axis]
        return self._derive(shape, at)

    # ---- element-wise
    def _elemwise(self, other, op, rev=False):
        if isinstance(other, SArr):
            nd = max(self.ndim, other.ndim)
            a, b = (other, self) if rev else (self, other)
            shape = []
            for j in range(nd):
                da = a.shape[j - (nd - a.ndim)] if j >= nd - a.ndim else 1
                db = b.shape[j - (nd - b.ndim)] if j >= nd - b.ndim else 1
                if isinstance(da, int) and isinstance(db, int):
                    shape.append(db if da == 1 else da)
                else:
                    shape.append(core._ite(da == 1, db, da))
                    log = self.log or other.log
                    if log is not None:
                        log.add("operands are broadcast-compatible",
                                core._wrapb(z3.Or(_z(da) == _z(db), _z(da) == 1, _z(db) == 1)))
            A, B = a.broadcast_to(shape), b.broadcast_to(shape)
            out = self._derive(shape, lambda idx: op(A._at(idx), B._at(idx)))
            # linear combinations of structured arrays of identical shape stay reducible (sum(a+b) = sum(a)+sum(b))
            sign = getattr(op, "_lin_sign", None)
            if sign is not None and a.struct is not None and b.struct is not None and a.ndim == b.ndim and \
                    all(_same_dim(x, y) for x, y in zip(a.shape, b.shape)):
                out.struct = ("lin", [(1, a), (sign, b)])
            return out
        c = core.SymReal._r(other)
        src = self
        if rev:
            return self._derive(self.shape, lambda idx: op(c, src._at(idx)))
        return self._derive(self.shape, lambda idx: op(src._at(idx), c))

    def __add__(self, o):
        return self._elemwise(o, _ADD)

    def __radd__(self, o):
        return self._elemwise(o, _ADD, rev=True)

    def __sub__(self, o):
        return self._elemwise(o, _SUB)

    def __rsub__(self, o):
        return self._elemwise(o, _SUB, rev=True)

    def __mul__(self, o):
        return self._elemwise(o, lambda x, y: _UF("mul", x, y))

    def __rmul__(self, o):
        return self._elemwise(o, lambda x, y: _UF("mul", x, y), rev=True)

    def __truediv__(self, o):
        return self._elemwise(o, lambda x, y: x / y)  # exact division (the divisor is taken to be non-zero)

    def __rtruediv__(self, o):
        return self._elemwise(o, lambda x, y: x / y, rev=True)

    def __neg__(self):
        src = self
        out = self._derive(self.shape, lambda idx: -src._at(idx))
        if self.struct is not None:
            out.struct = ("lin", [(-1, self)])
        return out

    def __invert__(self):
        st = self.struct
        if st is not None and st[0] == "aff" and st[1].role == "nan":
            base = SArr(self.shape, None, self.dtype, self.log, struct=("aff", st[1].parent, st[2]))
            return companion_view(base, "valid")
        raise core.Unsupported("~ on a symbolic array that is not an isnan() mask")

    def _compare(self, other, op):
        res = self._elemwise(other, op)
        res.is_bool = True
        return res

    def __lt__(self, o):
        return self._compare(o, lambda x, y: x < y)

    def __le__(self, o):
        return self._compare(o, lambda x, y: x <= y)

    def __gt__(self, o):
        return self._compare(o, lambda x, y: x > y)

    def __ge__(self, o):
        return self._compare(o, lambda x, y: x >= y)

    def __setitem__(self, index, value):
        if isinstance(index, SArr) and getattr(index, "is_bool", False) and not isinstance(value, SArr):
            try:
                nanv = value != value
            except Exception:
                nanv = False
            v = NAN if nanv else core.SymReal._r(value)
            old, mask = self._at, index
            if len(mask.shape) != len(self.shape):
                raise core.Unsupported("boolean mask of a different rank")
            self._at = lambda idx, old=old, mask=mask, v=v: z3.If(mask._at(idx), v, old(idx))
            self.struct = None
            return
        raise core.Unsupported("item assignment on a symbolic array (only boolean-mask := scalar is modelled)")

    # ---- NumPy protocol: np.transpose(SArr) etc. land here
    def __array_function__(self, func, types, args, kwargs):
        name = func.__name__
        if name in _NP_FUNCS:
            return _NP_FUNCS[name](*args, **kwargs)
        raise core.Unsupported(f"numpy function {name} on a symbolic array")

    def __array_ufunc__(self, ufunc, method, *inputs, **kwargs):
        name = ufunc.__name__
        out = kwargs.pop("out", None)
        kwargs.pop("casting", None)
        kwargs.pop("dtype", None)
        where = kwargs.pop("where", True)
        if where is not True and out is None:
            raise core.Unsupported("ufunc where= without out= (uninitialised result elements)")
        if out is not None:
            tgt = out[0] if isinstance(out, tuple) else out
            if not isinstance(tgt, SArr):
                raise core.Unsupported("ufunc out= is not a symbolic array")
            if isinstance(tgt, Shared):
                raise SharedWrite("ufunc out= writes into a block the task does not own")
            # inputs that alias the output are read before it is overwritten
            inputs = tuple(SArr(x.shape, x._at, x.dtype, x.log, x.kind, x.struct) if x is tgt else x for x in inputs)
            res = inputs[0].__array_ufunc__(ufunc, method, *inputs, **kwargs) if isinstance(inputs[0], SArr) else \
                next(x for x in inputs if isinstance(x, SArr)).__array_ufunc__(ufunc, method, *inputs, **kwargs)
            if where is not True:
                # elements where the mask is false keep what the output held
                old = SArr(tgt.shape, tgt._at, tgt.dtype)
                w_ = where if isinstance(where, SArr) else SArr((), lambda idx, c=bool(where): z3.BoolVal(c))
                res, oldb, wb = res.broadcast_to(tgt.shape), old, w_.broadcast_to(tgt.shape)
                res = SArr(tgt.shape, lambda idx, r=res, o=oldb, m=wb: z3.If(_as_bool(m._at(idx)), r._at(idx), o._at(idx)))
            tgt._at, tgt.shape, tgt.struct = res._at, res.shape, None
            return tgt
        if method == "accumulate":
            if name != "add":
                raise core.Unsupported(f"{name}.accumulate: only add has a decidable prefix model (see DESIGN C19)")
            return inputs[0].accumulate(kwargs.get("axis", 0), name)
        if method == "reduce":
            if name != "add":
                raise core.Unsupported(f"{name}.reduce: only add has a decidable prefix model (see DESIGN C19)")
            return inputs[0].reduce_axis(kwargs.get("axis", 0), name, keepdims=bool(kwargs.get("keepdims", False)))
        if method != "__call__":
            raise core.Unsupported(f"ufunc {ufunc.__name__}.{method} on a symbolic array")
        arrs = [x for x in inputs if isinstance(x, SArr)]
        if name == "add" and len(inputs) == 2:
            return inputs[0] + inputs[1] if isinstance(inputs[0], SArr) else inputs[1].__radd__(inputs[0])
        if name == "subtract" and len(inputs) == 2:
            return inputs[0] - inputs[1] if isinstance(inputs[0], SArr) else inputs[1].__rsub__(inputs[0])
        if name == "negative":
            return -inputs[0]
        if name in ("divide", "true_divide") and len(inputs) == 2 and isinstance(inputs[0], SArr):
            d = inputs[1]
            if isinstance(d, SArr):
                return inputs[0]._elemwise(d, lambda x, y: x / y)
            dz = core.SymReal._r(d)
            src = inputs[0]
            return src._derive(src.shape, lambda idx: src._at(idx) / dz)
        if len(inputs) == 1:
            src = arrs[0]
            return src._derive(src.shape, lambda idx: _UF(name, src._at(idx)))
        if len(inputs) == 2:
            a, b = inputs
            if isinstance(a, SArr):
                return a._elemwise(b, lambda x, y: _UF(name, x, y))
            return b._elemwise(a, lambda x, y: _UF(name, x, y), rev=True)
        raise core.Unsupported(f"ufunc {name} arity {len(inputs)}")

    def __repr__(self):
        return f"SArr(shape={self.shape})"


def _as_bool(t):
    return t if z3.is_bool(t) else t != 0


class SharedWrite(Exception):
    """a block function wrote into an array it received (or an alias of it) instead of a private copy"""


class Shared(SArr):
    """A block as a task receives it: other tasks and collections hold the same buffer.  copy() gives a private mutable
    array; view() / np.ma.masked_array(copy=False) give aliases; writing into the block or an alias raises SharedWrite."""

    masked = False
    owndata = True

    @property
    def flags(self):
        import types

        return types.SimpleNamespace(owndata=self.owndata, writeable=True)

    def copy(self, *a, **k):
        return MArr(self.shape, self._at, self.dtype, self.log)

    def view(self, *a, **k):
        out = Shared(self.shape, self._at, self.dtype, self.log, self.kind, self.struct)
        out.owndata = False
        out.masked = self.masked or any(getattr(x, "__name__", "") == "MaskedArray" for x in a)
        return out

    def __setitem__(self, index, value):
        raise SharedWrite("item assignment into a block the task does not own")


def shared(a, masked=False, owndata=True):
    out = Shared(a.shape, a._at, a.dtype, a.log, a.kind, a.struct)
    out.masked, out.owndata = masked, owndata
    return out


def _ADD(x, y):
    return x + y


def _SUB(x, y):
    return x - y


_ADD._lin_sign = 1
_SUB._lin_sign = -1


def _same_dim(x, y):
    if isinstance(x, int) and isinstance(y, int):
        return x == y
    if isinstance(x, int) or isinstance(y, int):
        return False
    return z3.eq(z3.simplify(_z(x)), z3.simplify(_z(y)))


def _lin_apply(parts, f):
    out = None
    for coef, p in parts:
        t = f(p)
        t = t if coef == 1 else -t
        out = t if out is None else out + t
    return out


_uf_cache = {}


def _UF(name, *args):
    """Uninterpreted element-wise operation (equal arguments => equal results)."""
    key = (name, len(args))
    if key not in _uf_cache:
        _uf_cache[key] = z3.Function("op_" + name, *([z3.RealSort()] * (len(args) + 1)))
    return _uf_cache[key](*args)


def leaf(name, shape, log=None, itemsize=8, kind="array", cls=None, dtype=None):
    """A source array: elements are an uninterpreted function of the position."""
    nd = len(shape)
    L = Leaf(name, nd)
    f = L.fn
    c0 = z3.Real(f"src_{name}_scalar") if not nd else None
    dt = np.dtype(f"V{itemsize}") if itemsize not in (1, 2, 4, 8) else np.dtype(f"i{itemsize}")
    if dtype is not None:
        dt = np.dtype(dtype)
    out = (cls or SArr)(shape, (lambda idx: f(*idx)) if nd else (lambda idx: c0), dt, log, kind)
    out._symx_token = f"leaf:{name}"
    out.struct = ("aff", L, [("lin", 0, 1, j) for j in range(nd)])
    return out


NAN = z3.Real("NaN")  # the value written where a result is undefined (compared only for identity)


def _same_coords(a, b):
    if len(a) != len(b):
        return False
    for x, y in zip(a, b):
        if x[0] != y[0]:
            return False
        if not z3.eq(z3.simplify(_z(x[1])), z3.simplify(_z(y[1]))):
            return False
        if x[0] == "lin" and (x[2] != y[2] or x[3] != y[3]):
            return False
    return True


def companion_view(a, role):
    """the same view as `a` (an affine view of a source) over a companion quantity of that source"""
    st = a.struct
    if st is None:
        raise core.Unsupported(f"{role} of an array that is not a view of a source")
    if st[0] == "cat":
        return _concatenate([companion_view(p, role) for p in st[2]], axis=st[1])
    L2 = st[1].companion(role)
    coords = st[2]

    def at(idx, coords=tuple(coords), f=L2.fn):
        return f(*[(_z(c[1]) if c[0] == "fix" else _z(c[1]) + c[2] * idx[c[3]]) for c in coords])

    return a._derive(a.shape, at, struct=("aff", L2, list(coords)))


def sarr_isnan(a):
    return companion_view(a, "nan")


def _gradient(f, varargs, axis, edge_order):
    """np.gradient along one axis with a scalar spacing h and edge_order=1: central differences (f[i+1]-f[i-1])/(2h) inside,
    one-sided (f[1]-f[0])/h and (f[n-1]-f[n-2])/h at the two ends (needs n >= 2)"""
    if edge_order != 1 or axis is None or isinstance(axis, (tuple, list)) or len(varargs) > 1:
        raise core.Unsupported("np.gradient: only one axis, scalar spacing, edge_order=1 are modelled")
    h = core.SymReal._r(varargs[0]) if varargs else z3.RealVal(1)
    if varargs and isinstance(varargs[0], (SArr, np.ndarray)) and getattr(varargs[0], "ndim", 0):
        raise core.Unsupported("np.gradient with coordinate arrays")
    ax = int(axis) % f.ndim
    n = f.shape[ax]
    if f.log is not None:
        f.log.add("np.gradient needs at least two points along the axis", core._wrapb(_z(n) >= 2))

    def at(idx, f=f, ax=ax, n=n, h=h):
        def sh(d):
            j = list(idx)
            j[ax] = idx[ax] + d
            return f._at(tuple(j))

        i = idx[ax]
        return z3.If(i == 0, (sh(1) - sh(0)) / h, z3.If(i == _z(n) - 1, (sh(0) - sh(-1)) / h, (sh(1) - sh(-1)) / (2 * h)))

    return f._derive(f.shape, at)


def _where(cond, x, y):
    """np.where(cond, x, y) with broadcasting; the NaN-companion form (where(valid(v), v, c)) keeps its structured meaning"""
    if x is None or y is None:
        raise core.Unsupported("np.where with one argument (data-dependent shape)")
    if isinstance(cond, SArr) and isinstance(x, SArr) and not isinstance(y, SArr):
        try:
            return sarr_where(cond, x, y)
        except core.Unsupported:
            pass

    def arr(v):
        if isinstance(v, SArr):
            return v
        if isinstance(v, np.ndarray):
            if v.ndim:
                raise core.Unsupported("np.where with a non-scalar NumPy operand next to symbolic arrays")
            v = v.item()
        c = core.SymReal._r(v)
        return SArr((), lambda idx, c=c: c)

    c_, x_, y_ = arr(cond), arr(x), arr(y)
    nd = max(c_.ndim, x_.ndim, y_.ndim)
    shape = []
    for k in range(nd):
        dims = [a.shape[a.ndim - nd + k] for a in (c_, x_, y_) if a.ndim - nd + k >= 0]
        d = next((v for v in dims if not _concrete_one(v)), 1)
        shape.append(d)
    cb, xb, yb = c_.broadcast_to(shape), x_.broadcast_to(shape), y_.broadcast_to(shape)
    return SArr(tuple(shape), lambda idx: z3.If(_as_bool(cb._at(idx)), xb._at(idx), yb._at(idx)), x_.dtype if isinstance(x, SArr) else None, c_.log)


def sarr_where(cond, x, y):
    """np.where(valid, values, c): the 'clean' companion, when cond is the validity view of the same view"""
    cs, xs = cond.struct, x.struct
    if isinstance(y, SArr) or cs is None or xs is None or cs[0] != "aff" or xs[0] != "aff":
        raise core.Unsupported("np.where on symbolic arrays other than where(valid(v), v, constant)")
    if cs[1].role != "valid" or cs[1].parent is not xs[1] or not _same_coords(cs[2], xs[2]):
        raise core.Unsupported("np.where condition is not the validity of the same view")
    return companion_view(x, ("clean", y))


class Leaf:
    """identity of a source array and its uninterpreted prefix functions:
    prefix(L, op)(p_0..p_{L-1}, k, p_{L+1}..) stands for the op-sum of src[..., u, ...] over u < k"""

    def __init__(self, name, nd, parent=None, role=None):
        self.name, self.nd = name, nd
        self._pfx = {}
        self._comp = {}
        self.parent, self.role = parent, role
        self.fn = z3.Function(f"src_{name}", *([z3.IntSort()] * nd + [z3.RealSort()])) if nd else None

    def companion(self, role):
        """derived per-element quantities of the same source: 'nan' (1 where NaN), 'valid' (1 where not NaN),
        ('clean', c) (the value, or c where NaN) -- uninterpreted, one function per role"""
        if role not in self._comp:
            tag = role if isinstance(role, str) else "_".join(str(x).replace("-", "m").replace(".", "p") for x in role)
            self._comp[role] = Leaf(f"{self.name}__{tag}", self.nd, parent=self, role=role)
        return self._comp[role]

    def prefix(self, L, op="add"):
        key = (L, op)
        if key not in self._pfx:
            self._pfx[key] = z3.Function(f"pfx_{self.name}_{L}_{op}", *([z3.IntSort()] * self.nd + [z3.RealSort()]))
        return self._pfx[key]


# ---- NumPy-level functions on SArr (dispatched through __array_function__)


def _concatenate(arrs, axis=0, **_k):
    arrs = list(arrs)
    axis = int(axis) % arrs[0].ndim
    shape = list(arrs[0].shape)
    total = 0
    bounds = []
    for a in arrs:
        bounds.append(total)
        total = total + a.shape[axis]
    shape[axis] = total

    def at(idx, arrs=tuple(arrs), bounds=tuple(bounds), axis=axis):
        out = None
        for a, lo in reversed(list(zip(arrs, bounds))):
            j = list(idx)
            j[axis] = idx[axis] - _z(lo)
            v = a._at(tuple(j))
            out = v if out is None else z3.If(idx[axis] >= _z(lo) + _z(a.shape[axis]), out, v)
        return out

    st = ("cat", axis, list(arrs)) if all(a.struct is not None for a in arrs) else None
    return arrs[0]._derive(shape, at, struct=st)


def _stack(arrs, axis=0, **_k):
    arrs = list(arrs)
    nd = arrs[0].ndim + 1
    axis = int(axis) % nd
    return _concatenate([a.expand_dims((axis,)) for a in arrs], axis=axis)


_NP_FUNCS = dict(
    transpose=lambda a, axes=None: a.transpose(*([axes] if axes is not None else [])),
    concatenate=_concatenate,
    stack=_stack,
    expand_dims=lambda a, axis: a.expand_dims(axis),
    broadcast_to=lambda a, shape, subok=False: a.broadcast_to(shape),
    flip=lambda a, axis=None: a.flip(axis),
    copy=lambda a, *x, **k: a,
    asarray=lambda a, *x, **k: a,
    asanyarray=lambda a, *x, **k: a,
    ascontiguousarray=lambda a, *x, **k: a,
    shape=lambda a: a.shape,
    ndim=lambda a: a.ndim,
    squeeze=lambda a, axis=None: _squeeze(a, axis),
    moveaxis=lambda a, s, d: _moveaxis(a, s, d),
    swapaxes=lambda a, i, j: _swapaxes(a, i, j),
    repeat=lambda a, repeats, axis=None: _repeat(a, repeats, axis),
    take=lambda a, indices, axis=None, **k: _take(a, indices, axis),
    diagonal=lambda a, offset=0, axis1=0, axis2=1: _diagonal(a, offset, axis1, axis2),
    diag=lambda v, k=0: _diag(v, k),
    asfortranarray=lambda a, dtype=None, like=None: a,
    where=lambda cond, x=None, y=None: _where(cond, x, y),
    gradient=lambda f, *varargs, axis=None, edge_order=1: _gradient(f, varargs, axis, edge_order),
    can_cast=lambda from_, to, casting="safe": np.can_cast(from_.dtype if isinstance(from_, SArr) and from_.dtype is not None else np.float64, to, casting=casting),
    empty_like=lambda a, dtype=None, order="K", subok=True, shape=None: _empty_like(a, shape),
    sliding_window_view=lambda x, window_shape, axis=None, **k: _sliding_window_view(x, window_shape, axis),
    cumsum=lambda a, axis=None, dtype=None, out=None: a.accumulate(axis, "add"),
    sum=lambda a, axis=None, dtype=None, out=None, keepdims=False, **k: a.reduce_axis(axis, "add", keepdims),
)


def _diagonal(a, offset=0, axis1=0, axis2=1):
    """np.diagonal: out[..., t] = a[.., t + max(0,-k) (axis1), .., t + max(0,k) (axis2), ..]; the other axes keep their order"""
    axis1, axis2 = int(axis1) % a.ndim, int(axis2) % a.ndim
    if axis1 == axis2:
        raise ValueError("axis1 and axis2 cannot be the same")
    k = offset
    r0 = core._ite(k < 0, -k, 0) if isinstance(k, SymInt) else max(0, -k)
    c0 = core._ite(k > 0, k, 0) if isinstance(k, SymInt) else max(0, k)
    n1, n2 = a.shape[axis1] - r0, a.shape[axis2] - c0
    ln = core._ite(n1 < n2, n1, n2)
    ln = core._ite(ln < 0, 0, ln)
    rest = [j for j in range(a.ndim) if j not in (axis1, axis2)]
    shape = [a.shape[j] for j in rest] + [ln]

    def at(idx, a=a, rest=tuple(rest), r0=r0, c0=c0):
        pos = [None] * a.ndim
        for q, j in enumerate(rest):
            pos[j] = idx[q]
        pos[axis1] = idx[-1] + _z(r0)
        pos[axis2] = idx[-1] + _z(c0)
        return a._at(tuple(pos))

    return a._derive(shape, at)


def _diag(v, k=0):
    """np.diag: the k-th diagonal of a 2-d array, or the 2-d array with the 1-d input on its k-th diagonal"""
    if v.ndim == 2:
        return _diagonal(v, k)
    if v.ndim != 1:
        raise ValueError("Input must be 1- or 2-d.")
    n = v.shape[0] + (abs(k) if not isinstance(k, SymInt) else core._ite(k < 0, -k, k))
    r0 = max(0, -k) if not isinstance(k, SymInt) else core._ite(k < 0, -k, 0)

    def at(idx, v=v, k=k, r0=r0):
        i, j = idx
        return z3.If(j - i == _z(k), v._at((i - _z(r0),)), z3.RealVal(0))

    return v._derive((n, n), at)


_EMPTY = [0]


def _empty_like(a, shape=None):
    """np.empty_like: a mutable array of the given shape with arbitrary content (a fresh uninterpreted function)"""
    shape = tuple(a.shape if shape is None else ((shape,) if not isinstance(shape, (tuple, list)) else shape))
    _EMPTY[0] += 1
    f = z3.Function(f"uninit_{_EMPTY[0]}", *([z3.IntSort()] * len(shape) + [z3.RealSort()])) if shape else None
    c = z3.Real(f"uninit_{_EMPTY[0]}") if not shape else None
    return MArr(shape, (lambda idx, f=f: f(*idx)) if shape else (lambda idx, c=c: c), a.dtype, a.log)


def _sliding_window_view(x, window_shape, axis=None):
    """np.lib.stride_tricks.sliding_window_view: out[..., i, ..., w] = x[..., i + w, ...]; one new trailing axis per window"""
    ws = tuple(window_shape) if isinstance(window_shape, (tuple, list)) else (window_shape,)
    if axis is None:
        axes = tuple(range(x.ndim))
    else:
        axes = tuple(axis) if isinstance(axis, (tuple, list)) else (axis,)
    axes = tuple(int(a) % x.ndim for a in axes)
    if len(ws) != len(axes):
        raise ValueError("window_shape and axis must have the same length")
    shape = list(x.shape)
    for a, w_ in zip(axes, ws):
        shape[a] = shape[a] - w_ + 1
    nd = x.ndim

    def at(idx, axes=axes, x=x, nd=nd):
        pos = list(idx[:nd])
        for k, a in enumerate(axes):
            pos[a] = pos[a] + idx[nd + k]
        return x._at(tuple(pos))

    return x._derive(tuple(shape) + ws, at)


def _take(a, indices, axis):
    if axis is None:
        if a.ndim != 1:
            raise core.Unsupported("np.take without axis on a multi-dimensional symbolic array")
        axis = 0
    axis = int(axis) % a.ndim
    ix = [slice(None)] * a.ndim
    ix[axis] = indices if isinstance(indices, (list, np.ndarray)) else [indices]
    return a[tuple(ix)]


def _repeat(a, repeats, axis):
    """np.repeat of an array that has length 1 along `axis` (a symbolic number of copies)"""
    axis = int(axis) % a.ndim
    d = a.shape[axis]
    shape = list(a.shape)
    if d == 1:  # forks when the extent is symbolic
        shape[axis] = repeats
    elif d == 0:
        shape[axis] = 0
    else:
        raise core.Unsupported("np.repeat of an array longer than 1 along the axis")

    def at(idx, a=a, axis=axis):
        j = list(idx)
        j[axis] = z3.IntVal(0)
        return a._at(tuple(j))

    return a._derive(shape, at)


def _squeeze(a, axis):
    if axis is None:
        axis = tuple(j for j, d in enumerate(a.shape) if _concrete_one(d))
    if isinstance(axis, numbers.Integral):
        axis = (axis,)
    axis = tuple(int(x) % a.ndim for x in axis)
    return a[tuple(0 if j in axis else slice(None) for j in range(a.ndim))]


def _moveaxis(a, s, d):
    order = [j for j in range(a.ndim) if j != int(s) % a.ndim]
    order.insert(int(d) % a.ndim, int(s) % a.ndim)
    return a.transpose(order)


def _swapaxes(a, i, j):
    order = list(range(a.ndim))
    order[i], order[j] = order[j], order[i]
    return a.transpose(order)


def concatenate_nested(nested):
    """dask's concatenate3: arbitrarily nested lists of blocks -> one array (depth = rank)."""
    def depth(x):
        return 1 + depth(x[0]) if isinstance(x, (list, tuple)) else 0

    def rec(x, ax):
        if not isinstance(x, (list, tuple)):
            return x
        parts = [rec(y, ax + 1) for y in x]
        return _concatenate(parts, axis=ax)

    if isinstance(nested, (list, tuple)) and len(nested) == 0:
        return SArr((0,), lambda idx: z3.RealVal(0))  # what the real concatenate3([]) gives: an empty 1-d array
    d = depth(nested)
    if d == 0:
        return nested
    # blocks may have higher rank than the nesting depth: concatenate over leading axes
    return rec(nested, 0)


concatenate_nested.__symx_kernel__ = True


def assemble(blocks, numblocks):
    """blocks: {block index tuple: SArr} over the full grid -> the whole array."""
    def rec(prefix, ax):
        if ax == len(numblocks):
            return blocks[tuple(prefix)]
        return [rec(prefix + [i], ax + 1) for i in range(numblocks[ax])]

    if not numblocks:
        return blocks[()]
    return concatenate_nested(rec([], 0))


def same_array(E, a, b, label="values", skolem="p"):
    """Obligations: equal rank and shape, and equal element terms at a skolem index."""
    ok = E.ensure(f"{label}-rank", a.ndim == b.ndim)
    if a.ndim != b.ndim:
        return False
    from .oracle import AND

    ok = E.ensure(f"{label}-shape", AND(*[x == y for x, y in zip(a.shape, b.shape)]) if a.ndim else True) and ok
    idx = []
    for j, d in enumerate(a.shape):
        p = E.int(f"{skolem}{j}")
        E.assume(AND(p >= 0, p < d))
        idx.append(p)
    # instances of the defining equation of a prefix function (pfx(k+1) == pfx(k) + src(k)) that an array's builder asks for:
    # a conservative extension, so assuming them loses nothing
    lem = []
    for arr in (a, b):
        f = getattr(arr, "lemmas", None)
        if f is not None:
            lem.extend(f([_z(p) for p in idx]))
    if E.symbolic:
        for c in lem:
            E.assume(_wrapb(c))
        ta, tb = a.at(idx), b.at(idx)
        ok = E.ensure(f"{label}-elements", _wrapb(ta == tb)) and ok
    else:
        eq = a.at(idx) == b.at(idx)
        ok = E.ensure(f"{label}-elements", valid(z3.Implies(z3.And(*lem), eq) if lem else eq)) and ok
    return ok


def prefix_lemmas(x, axis, idx, count, op="add"):
    """defining-equation instances of the prefix function of the source `x` views, along its axis `axis`, for the
    `count` positions starting at idx[axis]"""
    st = x.struct
    if st is None or st[0] != "aff":
        return []
    leafobj, coords = st[1], st[2]
    L = next((k for k, c in enumerate(coords) if c[0] == "lin" and c[3] == axis), None)
    if L is None:
        return []
    S = leafobj.prefix(L, op)
    pos = [(_z(c[1]) if c[0] == "fix" else _z(c[1]) + c[2] * idx[c[3]]) for c in coords]
    stride = coords[L][2]
    out = []
    for k in range(count):
        q = list(pos)
        q[L] = pos[L] + stride * k
        q1 = list(q)
        q1[L] = q[L] + 1
        out.append(S(*q1) == S(*q) + leafobj.fn(*q))
    return out


def valid(formula):
    """concrete replays: is a closed formula over uninterpreted sources valid?"""
    s = z3.Solver()
    s.set("timeout", 20000)
    s.add(z3.Not(formula))
    r = s.check()
    if r == z3.unknown:
        raise core.Unsupported("solver unknown in a concrete replay")
    return r == z3.unsat


class MArr(SArr):
    """Mutable symbolic array (a store target, or the copy a block kernel assigns into):
    ``a[index] = value`` with basic indices (ints, slices of any step) is a functional update of the
    element function with NumPy's semantics -- the value is broadcast to the selected shape; the
    obligations 'value broadcasts to the selection' go to the log."""

    def __setitem__(self, index, value):
        if isinstance(index, SArr):
            return SArr.__setitem__(self, index, value)
        if not isinstance(index, tuple):
            index = (index,)
        index = list(index)
        if any(i is Ellipsis for i in index):
            k = next(j for j, i in enumerate(index) if i is Ellipsis)
            index[k:k + 1] = [slice(None)] * (self.ndim - (len(index) - 1))
        index = index + [slice(None)] * (self.ndim - len(index))
        sel = []   # per target axis: ("int", pos) | ("slice", a, b, s, sel_axis)
        lens = []
        for ind, n in zip(index, self.shape):
            if _is_slice(ind):
                st = ind.step
                if isinstance(st, SymInt):
                    st = int(st)
                a, b, s_ = slice_indices(ind.start, ind.stop, st, n)
                sel.append(("slice", a, b, s_, len(lens)))
                lens.append(range_len(a, b, s_))
            elif isinstance(ind, (numbers.Integral, SymInt)):
                if self.log is not None:
                    self.log.add("assignment integer index in range", core._wrapb(z3.And(_z(ind) >= -_z(n), _z(ind) < _z(n))))
                sel.append(("int", core._ite(ind < 0, ind + n, ind)))
            elif isinstance(ind, (list, np.ndarray)) and not isinstance(ind, SArr) and not any(e[0] == "list" for e in sel):
                vals = np.asarray(ind).tolist() if isinstance(ind, np.ndarray) else list(ind)
                if any(isinstance(v, (list, tuple, bool, np.bool_)) for v in vals):
                    raise core.Unsupported("assignment index: only 1-d integer arrays")
                if self.log is not None:
                    for v in vals:
                        self.log.add("assignment array index entry in range", core._wrapb(z3.And(_z(v) >= -_z(n), _z(v) < _z(n))))
                sel.append(("list", tuple(core._ite(v < 0, v + n, v) for v in vals), len(lens)))
                lens.append(len(vals))
            else:
                raise core.Unsupported(f"assignment index element {ind!r}")
        if not isinstance(value, SArr):
            c = core.SymReal._r(value)
            value = SArr((), lambda idx, c=c: c)
        if value.ndim > len(lens):
            # leading axes of the value must have length 1
            extra = value.ndim - len(lens)
            if self.log is not None:
                self.log.add("value has no more dimensions than the selection", core._wrapb(z3.And(*[_z(d) == 1 for d in value.shape[:extra]])))
            value = value[(0,) * extra]
        off = len(lens) - value.ndim
        if self.log is not None:
            conds = [z3.Or(_z(d) == _z(lens[off + j]), _z(d) == 1) for j, d in enumerate(value.shape)]
            self.log.add("value broadcasts to the selected shape", core._wrapb(z3.And(*conds)) if conds else True)
        vb = value.broadcast_to(lens)
        old = self._at

        def at(pos, sel=tuple(sel), vb=vb, old=old):
            conds, idx = [], [None] * len(vb.shape)
            for p, e in zip(pos, sel):
                if e[0] == "int":
                    conds.append(p == _z(e[1]))
                    continue
                if e[0] == "list":
                    # NumPy assigns in order: the last entry naming a position wins
                    vals = e[1]
                    if not vals:
                        conds.append(z3.BoolVal(False))
                        idx[e[2]] = z3.IntVal(0)
                        continue
                    conds.append(z3.Or(*[p == _z(v) for v in vals]))
                    sel_j = z3.IntVal(0)
                    for j2, v in enumerate(vals):
                        sel_j = z3.If(p == _z(v), z3.IntVal(j2), sel_j)
                    idx[e[2]] = sel_j
                    continue
                _k, a, b, s_, j = e
                a, b = _z(a), _z(b)
                if s_ > 0:
                    conds += [p >= a, p < b, (p - a) % s_ == 0]
                    idx[j] = (p - a) / s_
                else:
                    conds += [p <= a, p > b, (a - p) % (-s_) == 0]
                    idx[j] = (a - p) / (-s_)
            return z3.If(z3.And(*conds) if conds else z3.BoolVal(True), vb._at(tuple(idx)), old(pos))

        self._at = at
        self.struct = None
        self.writes = getattr(self, "writes", 0) + 1

    def __getitem__(self, index):
        # a read sees the content at the time of the read
        return SArr(self.shape, self._at, self.dtype, self.log)[index]

    def copy(self):
        return MArr(self.shape, self._at, self.dtype, self.log)


def mutable_copy(a):
    return MArr(a.shape, a._at, a.dtype, a.log)
