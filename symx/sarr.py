"""Symbolic arrays: the value domain on which the repository's task graphs are executed.

An ``SArr`` has a shape (ints or SymInts; the *rank* is concrete) and an element function
``at(idx) -> z3 Real term`` for an index vector of z3 Int terms.  Leaves are uninterpreted
functions of the source position, so two arrays are equal for *every* source content iff
their element terms are equal for a skolem index -- which the solver decides.

The operations below are the NumPy definitions (basic indexing, concatenation, transpose,
expand_dims, broadcast_to, flip, element-wise arithmetic with broadcasting) written once,
directly from the NumPy documentation; they are the oracle.  Graph tasks emitted by the
repository's ``_layer`` methods are executed on the same domain (graph.py), so a wrong
offset / block / order in a layer shows up as a different element term.
"""
from __future__ import annotations

import builtins
import itertools
import numbers

import numpy as np
import z3

from . import core
from .core import SymBool, SymInt, SymSlice, _wrapb, _wrapi, _z, range_len, slice_indices, zbool

_leaf_counter = itertools.count()


class BoundsLog:
    """Obligations collected while executing (integer index in range, reads inside a store)."""

    def __init__(self):
        self.items = []  # (label, condition)

    def add(self, label, cond):
        self.items.append((label, cond))


def _is_slice(x):
    return isinstance(x, SymSlice) or builtins.type(x) is builtins.slice


def _concrete_one(d):
    return isinstance(d, int) and d == 1


class SArr:
    __array_priority__ = 1000

    def __init__(self, shape, at, dtype=None, log=None, kind="array"):
        self.shape = tuple(shape)
        self._at = at
        self.dtype = dtype or np.dtype("f8")
        self.log = log
        self.kind = kind

    # ---- basics
    @property
    def ndim(self):
        return len(self.shape)

    @property
    def size(self):
        out = 1
        for d in self.shape:
            out = out * d
        return out

    @property
    def nbytes(self):
        return self.size * self.dtype.itemsize

    def at(self, idx):
        idx = tuple(idx)
        assert len(idx) == self.ndim, (len(idx), self.ndim)
        return self._at(tuple(_z(i) if not isinstance(i, z3.ExprRef) else i for i in idx))

    def copy(self):
        return self

    def __len__(self):
        if not self.shape:
            raise TypeError("len() of unsized object")
        return self.shape[0]

    def _derive(self, shape, at, kind=None):
        return SArr(shape, at, self.dtype, self.log, kind or "array")

    # ---- NumPy basic indexing (ints, slices, None, Ellipsis)
    def __getitem__(self, index):
        if not isinstance(index, tuple):
            index = (index,)
        index = list(index)
        if any(i is Ellipsis for i in index):
            k = next(j for j, i in enumerate(index) if i is Ellipsis)
            n_real = sum(1 for i in index if i is not None and i is not Ellipsis)
            index[k:k + 1] = [slice(None)] * (self.ndim - n_real)
        n_real = sum(1 for i in index if i is not None)
        if n_real > self.ndim:
            raise IndexError("too many indices for array")
        index = index + [slice(None)] * (self.ndim - n_real)
        new_shape = []
        plan = []  # per source axis: ('int', pos) | ('slice', start, step, out_axis)
        for ind in index:
            if ind is None:
                new_shape.append(1)
                continue
            n = self.shape[len(plan)]
            if _is_slice(ind):
                st = ind.step
                if isinstance(st, SymInt):
                    st = int(st)
                a, b, s = slice_indices(ind.start, ind.stop, st, n)
                plan.append(("slice", a, s, len(new_shape)))
                new_shape.append(range_len(a, b, s))
            elif isinstance(ind, (numbers.Integral, SymInt)):
                ok = core._wrapb(z3.And(_z(ind) >= -_z(n), _z(ind) < _z(n)))
                if self.log is not None:
                    self.log.add("integer index in range", ok)
                elif ok is not True and not bool(ok):
                    raise IndexError("index out of range")
                pos = core._ite(ind < 0, ind + n, ind)
                plan.append(("int", pos))
            else:
                raise NotImplementedError(f"SArr index element {ind!r}")
        src = self

        def at(idx, plan=tuple(plan), src=src):
            out = []
            for p in plan:
                if p[0] == "int":
                    out.append(_z(p[1]))
                else:
                    out.append(_z(p[1]) + _z(p[2]) * idx[p[3]])
            return src._at(tuple(out))

        return self._derive(new_shape, at)

    # ---- structural ops
    def transpose(self, *axes):
        if len(axes) == 1 and isinstance(axes[0], (tuple, list)):
            axes = tuple(axes[0])
        if not axes or axes == (None,):
            axes = tuple(reversed(range(self.ndim)))
        axes = tuple(int(a) % self.ndim if self.ndim else int(a) for a in axes)
        assert sorted(axes) == list(range(self.ndim))
        src = self

        def at(idx, axes=axes, src=src):
            back = [None] * len(axes)
            for j, a in enumerate(axes):
                back[a] = idx[j]
            return src._at(tuple(back))

        return self._derive(tuple(self.shape[a] for a in axes), at)

    @property
    def T(self):
        return self.transpose()

    def expand_dims(self, axes):
        if isinstance(axes, numbers.Integral):
            axes = (axes,)
        nd = self.ndim + len(axes)
        axes = sorted(int(a) % nd for a in axes)
        shape, keep = [], []
        it = iter(self.shape)
        for j in range(nd):
            if j in axes:
                shape.append(1)
            else:
                shape.append(next(it))
                keep.append(j)
        src = self
        return self._derive(shape, lambda idx, keep=tuple(keep), src=src: src._at(tuple(idx[j] for j in keep)))

    def broadcast_to(self, shape):
        shape = tuple(shape)
        off = len(shape) - self.ndim
        assert off >= 0
        pin = []
        for j, d in enumerate(self.shape):
            pin.append(_concrete_one(d) and not _concrete_one(shape[off + j]))
        src = self

        def at(idx, off=off, pin=tuple(pin), src=src):
            return src._at(tuple(z3.IntVal(0) if pin[j] else idx[off + j] for j in range(len(pin))))

        return self._derive(shape, at)

    def flip(self, axis):
        axis = int(axis) % self.ndim
        n = self.shape[axis]
        src = self

        def at(idx, axis=axis, n=n, src=src):
            idx = list(idx)
            idx[axis] = _z(n) - 1 - idx[axis]
            return src._at(tuple(idx))

        return self._derive(self.shape, at)

    # ---- element-wise
    def _elemwise(self, other, op, rev=False):
        if isinstance(other, SArr):
            nd = max(self.ndim, other.ndim)
            a, b = (other, self) if rev else (self, other)
            shape = []
            for j in range(nd):
                da = a.shape[j - (nd - a.ndim)] if j >= nd - a.ndim else 1
                db = b.shape[j - (nd - b.ndim)] if j >= nd - b.ndim else 1
                shape.append(db if _concrete_one(da) else da)
            A, B = a.broadcast_to(shape), b.broadcast_to(shape)
            return self._derive(shape, lambda idx: op(A._at(idx), B._at(idx)))
        c = core.SymReal._r(other)
        src = self
        if rev:
            return self._derive(self.shape, lambda idx: op(c, src._at(idx)))
        return self._derive(self.shape, lambda idx: op(src._at(idx), c))

    def __add__(self, o):
        return self._elemwise(o, lambda x, y: x + y)

    def __radd__(self, o):
        return self._elemwise(o, lambda x, y: x + y, rev=True)

    def __sub__(self, o):
        return self._elemwise(o, lambda x, y: x - y)

    def __rsub__(self, o):
        return self._elemwise(o, lambda x, y: x - y, rev=True)

    def __mul__(self, o):
        return self._elemwise(o, lambda x, y: _UF("mul", x, y))

    def __rmul__(self, o):
        return self._elemwise(o, lambda x, y: _UF("mul", x, y), rev=True)

    def __neg__(self):
        src = self
        return self._derive(self.shape, lambda idx: -src._at(idx))

    # ---- NumPy protocol: np.transpose(SArr) etc. land here
    def __array_function__(self, func, types, args, kwargs):
        name = func.__name__
        if name in _NP_FUNCS:
            return _NP_FUNCS[name](*args, **kwargs)
        raise core.Unsupported(f"numpy function {name} on a symbolic array")

    def __array_ufunc__(self, ufunc, method, *inputs, **kwargs):
        if method != "__call__" or kwargs.get("out") is not None:
            raise core.Unsupported(f"ufunc {ufunc.__name__}.{method} on a symbolic array")
        name = ufunc.__name__
        arrs = [x for x in inputs if isinstance(x, SArr)]
        if name == "add" and len(inputs) == 2:
            return inputs[0] + inputs[1] if isinstance(inputs[0], SArr) else inputs[1].__radd__(inputs[0])
        if name == "subtract" and len(inputs) == 2:
            return inputs[0] - inputs[1] if isinstance(inputs[0], SArr) else inputs[1].__rsub__(inputs[0])
        if name == "negative":
            return -inputs[0]
        if len(inputs) == 1:
            src = arrs[0]
            return src._derive(src.shape, lambda idx: _UF(name, src._at(idx)))
        if len(inputs) == 2:
            a, b = inputs
            if isinstance(a, SArr):
                return a._elemwise(b, lambda x, y: _UF(name, x, y))
            return b._elemwise(a, lambda x, y: _UF(name, x, y), rev=True)
        raise core.Unsupported(f"ufunc {name} arity {len(inputs)}")

    def __repr__(self):
        return f"SArr(shape={self.shape})"


_uf_cache = {}


def _UF(name, *args):
    """Uninterpreted element-wise operation (equal arguments => equal results)."""
    key = (name, len(args))
    if key not in _uf_cache:
        _uf_cache[key] = z3.Function("op_" + name, *([z3.RealSort()] * (len(args) + 1)))
    return _uf_cache[key](*args)


def leaf(name, shape, log=None, itemsize=8, kind="array", cls=None):
    """A source array: elements are an uninterpreted function of the position."""
    nd = len(shape)
    f = z3.Function(f"src_{name}", *([z3.IntSort()] * nd + [z3.RealSort()])) if nd else None
    c0 = z3.Real(f"src_{name}_scalar") if not nd else None
    dt = np.dtype(f"V{itemsize}") if itemsize not in (1, 2, 4, 8) else np.dtype(f"i{itemsize}")
    out = (cls or SArr)(shape, (lambda idx: f(*idx)) if nd else (lambda idx: c0), dt, log, kind)
    out._symx_token = f"leaf:{name}"
    return out


# ---- NumPy-level functions on SArr (dispatched through __array_function__)


def _concatenate(arrs, axis=0, **_k):
    arrs = list(arrs)
    axis = int(axis) % arrs[0].ndim
    shape = list(arrs[0].shape)
    total = 0
    bounds = []
    for a in arrs:
        bounds.append(total)
        total = total + a.shape[axis]
    shape[axis] = total

    def at(idx, arrs=tuple(arrs), bounds=tuple(bounds), axis=axis):
        out = None
        for a, lo in reversed(list(zip(arrs, bounds))):
            j = list(idx)
            j[axis] = idx[axis] - _z(lo)
            v = a._at(tuple(j))
            out = v if out is None else z3.If(idx[axis] >= _z(lo) + _z(a.shape[axis]), out, v)
        return out

    return arrs[0]._derive(shape, at)


def _stack(arrs, axis=0, **_k):
    arrs = list(arrs)
    nd = arrs[0].ndim + 1
    axis = int(axis) % nd
    return _concatenate([a.expand_dims((axis,)) for a in arrs], axis=axis)


_NP_FUNCS = dict(
    transpose=lambda a, axes=None: a.transpose(*([axes] if axes is not None else [])),
    concatenate=_concatenate,
    stack=_stack,
    expand_dims=lambda a, axis: a.expand_dims(axis),
    broadcast_to=lambda a, shape, subok=False: a.broadcast_to(shape),
    flip=lambda a, axis=None: a.flip(axis),
    copy=lambda a, *x, **k: a,
    asarray=lambda a, *x, **k: a,
    asanyarray=lambda a, *x, **k: a,
    ascontiguousarray=lambda a, *x, **k: a,
    shape=lambda a: a.shape,
    ndim=lambda a: a.ndim,
    squeeze=lambda a, axis=None: _squeeze(a, axis),
    moveaxis=lambda a, s, d: _moveaxis(a, s, d),
    swapaxes=lambda a, i, j: _swapaxes(a, i, j),
)


def _squeeze(a, axis):
    if axis is None:
        axis = tuple(j for j, d in enumerate(a.shape) if _concrete_one(d))
    if isinstance(axis, numbers.Integral):
        axis = (axis,)
    axis = tuple(int(x) % a.ndim for x in axis)
    return a[tuple(0 if j in axis else slice(None) for j in range(a.ndim))]


def _moveaxis(a, s, d):
    order = [j for j in range(a.ndim) if j != int(s) % a.ndim]
    order.insert(int(d) % a.ndim, int(s) % a.ndim)
    return a.transpose(order)


def _swapaxes(a, i, j):
    order = list(range(a.ndim))
    order[i], order[j] = order[j], order[i]
    return a.transpose(order)


def concatenate_nested(nested):
    """dask's concatenate3: arbitrarily nested lists of blocks -> one array (depth = rank)."""
    def depth(x):
        return 1 + depth(x[0]) if isinstance(x, (list, tuple)) else 0

    def rec(x, ax):
        if not isinstance(x, (list, tuple)):
            return x
        parts = [rec(y, ax + 1) for y in x]
        return _concatenate(parts, axis=ax)

    d = depth(nested)
    if d == 0:
        return nested
    # blocks may have higher rank than the nesting depth: concatenate over leading axes
    return rec(nested, 0)


def assemble(blocks, numblocks):
    """blocks: {block index tuple: SArr} over the full grid -> the whole array."""
    def rec(prefix, ax):
        if ax == len(numblocks):
            return blocks[tuple(prefix)]
        return [rec(prefix + [i], ax + 1) for i in range(numblocks[ax])]

    if not numblocks:
        return blocks[()]
    return concatenate_nested(rec([], 0))


def same_array(E, a, b, label="values", skolem="p"):
    """Obligations: equal rank and shape, and equal element terms at a skolem index."""
    ok = E.ensure(f"{label}-rank", a.ndim == b.ndim)
    if a.ndim != b.ndim:
        return False
    from .oracle import AND

    ok = E.ensure(f"{label}-shape", AND(*[x == y for x, y in zip(a.shape, b.shape)]) if a.ndim else True) and ok
    idx = []
    for j, d in enumerate(a.shape):
        p = E.int(f"{skolem}{j}")
        E.assume(AND(p >= 0, p < d))
        idx.append(p)
    if E.symbolic:
        ta, tb = a.at(idx), b.at(idx)
        ok = E.ensure(f"{label}-elements", _wrapb(ta == tb)) and ok
    else:
        ok = E.ensure(f"{label}-elements", valid(a.at(idx) == b.at(idx))) and ok
    return ok


def valid(formula):
    """concrete replays: is a closed formula over uninterpreted sources valid?"""
    s = z3.Solver()
    s.set("timeout", 20000)
    s.add(z3.Not(formula))
    r = s.check()
    if r == z3.unknown:
        raise core.Unsupported("solver unknown in a concrete replay")
    return r == z3.unsat
