"""C25 -- store writes exactly the array into the requested target regions.

The repository's ``store`` (orchestration) and ``load_store_chunk`` / ``load_chunk`` (block
kernels, with the real ``fuse_slice`` and dask's ``ArraySliceDep``) are executed symbolically.
``map_blocks`` is replaced by a block-by-block executor that calls the function it was given
on every block of the (symbolic) source; targets are symbolic mutable arrays whose content is
a functional update per write.  After the whole store the target is compared, at a skolem
position, with the specification: positions selected by the region hold the corresponding
source element, every other position holds the original content; read-back results equal the
source blocks."""
from __future__ import annotations

import itertools

import numpy as np
import z3

from symx import core
from symx.core import range_len, slice_indices, _z
from symx.oracle import AND, EQ, IMPLIES, ITE, NOT, OR, cumsum0, selected, sel_len
from symx.runner import Instance
from symx.sarr import BoundsLog, MArr, SArr, leaf, same_array, valid
from symx.world import SHIM_LIST

from .common import unit_hashes, world

PROPERTY = "C25"
ST = "dask_array.io._store"
SU = "dask_array.slicing._utils"
DL = "dask.layers"
MODS = [ST, SU, DL]
UNITS = [(ST, "store"), (ST, "load_store_chunk"), (ST, "load_chunk"), (SU, "fuse_slice"),
         (SU, "_normalize_slice_for_fusion"), (DL, "ArraySliceDep.__init__"), (DL, "ArraySliceDep.__getitem__")]
STUBS = SHIM_LIST + [
    "map_blocks(func, source, *args, **kw) -> executes func on every block of the symbolic source immediately, in block "
    "order (ArraySliceDep arguments indexed by the block id, array arguments by their block); dask.compute/persist -> "
    "identity (everything already ran)",
    "targets -> symbolic mutable arrays: out[idx] = v is a functional update of the element function, with obligations "
    "'selection shape == value shape'; out[idx] reads through the updates",
    "dask_array._collection.Array -> the harness's symbolic source class (isinstance check in store)",
    "locks -> False/None (no effect on values)",
]
ASSUMPTIONS = [
    "rank (<=2), blocks per axis, number of source/target pairs (<=2), region None-pattern and step are concrete per "
    "instance; chunk sizes, target lengths, region bounds are unbounded integers",
    "regions satisfy the documented precondition target[region].shape == source.shape; region starts/stops >= 0 or None "
    "and steps >= 1 (fuse_slice's domain: it rejects negative steps)",
    "locks, delayed targets, schedulers, npy-stack file I/O are outside the claim",
]


def units():
    return unit_hashes(UNITS)


def bounds(tier):
    q = tier == "quick"
    return dict(rank=[1, 2], blocks_per_axis=[1, 2, 3] if q else [1, 2, 3, 4], pairs=[1, 2], region_steps=[1, 2] if q else [1, 2, 3],
                ints="unbounded")


Target = MArr


class Src:
    """symbolic dask array: chunks + the whole content"""

    def __init__(self, name, chunks, log):
        self.chunks = chunks
        self.shape = tuple(sum(c) for c in chunks)
        self.whole = leaf(name, self.shape, log=log)
        self._meta = np.empty((0,) * len(chunks))
        self.numblocks = tuple(len(c) for c in chunks)
        self.name = name

    def block(self, idx):
        cs = [cumsum0(c) for c in self.chunks]
        return self.whole[tuple(slice(c[i], c[i + 1]) for c, i in zip(cs, idx))]

    def freeze_chunks(self):
        # store pins its sources' layout; the stand-in's layout cannot drift (store_over_regridded_source decides the pin on
        # real nodes)
        return self


class Blocks:
    """result of the map_blocks stub: per-block return values"""

    def __init__(self, like, results):
        self.chunks = like.chunks
        self.numblocks = like.numblocks
        self._meta = like._meta
        self.results = results

    def block(self, idx):
        return self.results[idx]


def _map_blocks(func, first, *args, name=None, meta=None, **kwargs):
    from dask.layers import ArrayBlockwiseDep

    results = {}
    for idx in itertools.product(*[range(n) for n in first.numblocks]):
        a = [first.block(idx)]
        for x in args:
            if isinstance(x, ArrayBlockwiseDep):
                a.append(x[idx])
            elif isinstance(x, (Src, Blocks)):
                a.append(x.block(idx))
            else:
                a.append(x)
        results[idx] = func(*a, **kwargs)
    return Blocks(first, results)


class _Dask:
    @staticmethod
    def compute(*a, **k):
        return a


def W(E):
    w = world("C25", E.symbolic, MODS, extra=dict(map_blocks=_map_blocks, persist=lambda *a, **k: a, Array=(Src, Blocks)))
    if "ArraySliceDep" not in w.extra:
        from dask.layers import ArraySliceDep
        from symx.nodes import clone_class

        cls = clone_class(w, ArraySliceDep)
        w.extra["ArraySliceDep"] = cls
        for ns in w.ns.values():
            ns["ArraySliceDep"] = cls
    return w


def mk(E, name, present, lo=None):
    return E.int(name, lo) if present else None


def inst_store(blocks_list, region_specs, return_stored=False, compute=True):
    """blocks_list: per source, blocks per axis; region_specs: per source None or per-axis (ps, pe, step)"""
    def body(E):
        w = W(E)
        log = BoundsLog()
        srcs, tgts, regions, t0 = [], [], [], []
        for k, blocks in enumerate(blocks_list):
            chunks = tuple(tuple(E.int(f"c{k}_{a}_{i}", 1) for i in range(m)) for a, m in enumerate(blocks))
            s = Src(f"A{k}", chunks, log)
            spec = region_specs[k]
            if spec is None:
                tshape = s.shape
                region = None
            else:
                tshape = tuple(E.int(f"n{k}_{a}", 0) for a in range(len(blocks)))
                region = tuple(E.slice(mk(E, f"r{k}_{a}a", ps, 0), mk(E, f"r{k}_{a}b", pe, 0), st)
                               for a, (ps, pe, st) in enumerate(spec))
                # documented precondition: target[region].shape == source.shape
                for a, (sl, n) in enumerate(zip(region, tshape)):
                    E.assume(range_len(*slice_indices(sl.start, sl.stop, sl.step, n)) == s.shape[a])
            t = leaf(f"T{k}", tshape, log=log, cls=Target)
            t0.append(SArr(t.shape, t._at, t.dtype, None))
            srcs.append(s)
            tgts.append(t)
            regions.append(region)
        single = len(srcs) == 1
        if single:
            reg_arg = regions[0]
            out = w.fn(ST, "store")(srcs[0], tgts[0], lock=False, regions=reg_arg, compute=compute,
                                     return_stored=return_stored)
        else:
            reg_arg = None if all(r is None for r in regions) else [r if r is not None else tuple(slice(None) for _ in s.shape) for r, s in zip(regions, srcs)]
            out = w.fn(ST, "store")(list(srcs), list(tgts), lock=False, regions=reg_arg, compute=compute,
                                     return_stored=return_stored)
        for lab, cond in log.items:
            E.ensure(lab, cond)
        # ---- the target afterwards, at a skolem position
        for k, (s, t, region, orig) in enumerate(zip(srcs, tgts, regions, t0)):
            pos = []
            for a, n in enumerate(t.shape):
                p = E.int(f"p{k}_{a}")
                E.assume(AND(p >= 0, p < n))
                pos.append(p)
            zpos = tuple(_z(p) for p in pos)
            conds, idx = [], []
            for a, (p, n) in enumerate(zip(zpos, t.shape)):
                sl = region[a] if region is not None else slice(None)
                ra, rb, rs = slice_indices(sl.start, sl.stop, sl.step, n)
                conds += [p >= _z(ra), p < _z(rb), (p - _z(ra)) % rs == 0]
                idx.append((p - _z(ra)) / rs)
            want = z3.If(z3.And(*conds), s.whole._at(tuple(idx)), orig._at(zpos))
            got = t._at(zpos)
            E.ensure(f"target{k}-content", core._wrapb(got == want) if E.symbolic else valid(got == want))
            E.ensure(f"target{k}-one-write-per-block", getattr(t, "writes", 0) == len(list(itertools.product(*[range(n) for n in s.numblocks]))))
        # ---- read-back
        if return_stored:
            outs = [out] if single else list(out)
            E.ensure("return-count", len(outs) == len(srcs))
            for k, (o, s) in enumerate(zip(outs, srcs)):
                if not isinstance(o, Blocks):
                    E.ensure("return-type", False)
                    continue
                for idx in itertools.product(*[range(n) for n in s.numblocks]):
                    b = o.block(idx)
                    if not isinstance(b, SArr):
                        E.ensure(f"readback{k}-is-array", False)
                        continue
                    same_array(E, b, s.block(idx), label=f"readback{k}", skolem=f"q{k}_{'_'.join(map(str, idx))}_")
        else:
            E.ensure("no-return", out is None or isinstance(out, (Blocks, tuple)))

    def api(values):
        import dask_array as da

        srcs, tgts, regs, wants = [], [], [], []
        for k, blocks in enumerate(blocks_list):
            cs = tuple(tuple(values[f"c{k}_{a}_{i}"] for i in range(m)) for a, m in enumerate(blocks))
            shape = tuple(sum(c) for c in cs)
            if int(np.prod(shape)) > 20000:
                return dict(ok=False, detail="too large for an API replay; unit-level replay stands")
            data = (np.arange(int(np.prod(shape)), dtype="f8") + 1000 * (k + 1)).reshape(shape)
            spec = region_specs[k]
            if spec is None:
                tshape, region = shape, None
            else:
                tshape = tuple(values[f"n{k}_{a}"] for a in range(len(blocks)))
                if int(np.prod(tshape)) > 20000:
                    return dict(ok=False, detail="too large for an API replay; unit-level replay stands")
                region = tuple(slice(values.get(f"r{k}_{a}a"), values.get(f"r{k}_{a}b"), st) for a, (ps, pe, st) in enumerate(spec))
            t = -np.ones(tshape)
            want = t.copy()
            try:
                want[region if region is not None else ...] = data
            except ValueError:
                raise core._Abort()
            srcs.append(da.from_array(data, chunks=cs))
            tgts.append(t)
            regs.append(region)
            wants.append((want, data))
        if len(srcs) == 1:
            out = da.store(srcs[0], tgts[0], lock=False, regions=regs[0], compute=compute, return_stored=return_stored,
                           **(dict(scheduler="sync") if compute else {}))
        else:
            reg_arg = None if all(r is None for r in regs) else [r if r is not None else tuple(slice(None) for _ in t.shape) for r, t in zip(regs, tgts)]
            out = da.store(srcs, tgts, lock=False, regions=reg_arg, compute=compute, return_stored=return_stored,
                           **(dict(scheduler="sync") if compute else {}))
        import dask

        if not compute and not return_stored:
            dask.compute(out, scheduler="sync")
        ok = True
        detail = ""
        if return_stored:
            outs = [out] if len(srcs) == 1 else list(out)
            for o, (want, data) in zip(outs, wants):
                got = o.compute(scheduler="sync")
                if not np.array_equal(got, data):
                    ok, detail = False, f"read-back {got.tolist()} != source {data.tolist()}"
        for t, (want, data) in zip(tgts, wants):
            if not np.array_equal(t, want):
                ok, detail = False, f"target {t.tolist()} != expected {want.tolist()}"
        return dict(ok=ok, detail=detail[:300])

    nm = "+".join("x".join(map(str, b)) for b in blocks_list)
    cost = sum(int(np.prod(b)) for b in blocks_list) * (2 if return_stored else 1)
    return Instance(f"store[blocks={nm},regions={region_specs},return_stored={return_stored},compute={compute}]", body,
                    dict(blocks=blocks_list, regions=region_specs, return_stored=return_stored, compute=compute),
                    unit="store+load_store_chunk+fuse_slice", api_replay=api, cost=cost, wall_s=600)


def inst_kernel(rank, ps, pe, rstep, pis, pie):
    """load_store_chunk alone: arbitrary (not only block-aligned) unit-step index inside a region."""
    def body(E):
        w = W(E)
        log = BoundsLog()
        n = tuple(E.int(f"n{a}", 0) for a in range(rank))
        t = leaf("T", n, log=log, cls=Target)
        orig = SArr(t.shape, t._at, t.dtype, None)
        region = tuple(E.slice(mk(E, f"r{a}a", ps, 0), mk(E, f"r{a}b", pe, 0), rstep) for a in range(rank))
        index = tuple(E.slice(mk(E, f"i{a}a", pis, 0), mk(E, f"i{a}b", pie, 0), None) for a in range(rank))
        # reference: out[region][index]
        ref_sel = SArr(t.shape, lambda pos: 0, None, None)
        tri = []
        for a in range(rank):
            ra, rb, rs = slice_indices(region[a].start, region[a].stop, region[a].step, n[a])
            L = range_len(ra, rb, rs)
            ia, ib, _ = slice_indices(index[a].start, index[a].stop, None, L)
            tri.append((ra + ia * rs, ITE(ib > ia, ib - ia, 0), rs))  # first target position, count, stride
        xshape = tuple(c for (_f, c, _s) in tri)
        x = leaf("X", xshape, log=log)
        res = w.fn(ST, "load_store_chunk")(x, t, index, region, False, True, True)
        for lab, cond in log.items:
            E.ensure(lab, cond)
        pos = []
        for a in range(rank):
            p = E.int(f"p{a}")
            E.assume(AND(p >= 0, p < n[a]))
            pos.append(_z(p))
        conds, idx = [], []
        for p, (f, c, s) in zip(pos, tri):
            conds += [p >= _z(f), (p - _z(f)) % s == 0, (p - _z(f)) / s < _z(c)]
            idx.append((p - _z(f)) / s)
        nonempty = z3.And(*[_z(c) > 0 for (_f, c, _s) in tri])
        want = z3.If(z3.And(nonempty, *conds), x._at(tuple(idx)), orig._at(tuple(pos)))
        got = t._at(tuple(pos))
        E.ensure("target-content", core._wrapb(got == want) if E.symbolic else valid(got == want))
        if isinstance(res, SArr):
            same_array(E, res, x, label="load_stored", skolem="q")
        else:
            E.ensure("load_stored returns the block", False)

    return Instance(f"load_store_chunk[rank={rank},region=({ps},{pe},{rstep}),index=({pis},{pie})]", body,
                    dict(rank=rank, region=(ps, pe, rstep), index=(pis, pie)), unit="load_store_chunk+fuse_slice", wall_s=600)


R_FULL = (1, 1, None)
R_LO = (1, 0, None)
R_HI = (0, 1, None)


def inst_store_over_regridded_source(kind):
    """store(y, target) where the optimizer moves y onto other chunks than it advertises (a reversed sum of differently
    chunked operands; a native sliding-window reduction): store hands every block the slice of the target that belongs to it,
    computed from the chunks y advertises at the call -- so in the lowered graph the source argument of the store step must
    still have exactly those chunks (decided structurally, on the real store / map_blocks / optimizer; the writes themselves
    are decided by the other instances)"""
    def body(E):
        import builtins

        from . import catalog
        from .common import _walk

        w = catalog.W(E)
        if kind == "reversed-sum":
            prog = catalog.p_slice(w, catalog._add_concrete(w, E, (1, 1, 4), (1, 4, 1)), catalog.raw_index(E, ((0, 0, -1),)))
        elif kind == "take-of-stored":
            prog = catalog.source(w, E, "x", (2,), chunks=[(1, 1)])
        elif kind == "row-of-stored":
            prog = catalog.source(w, E, "x", (2, 2), chunks=[(2, 1), (1, 2)])
        else:
            prog = catalog.p_sliding_sum(w, E, catalog.source(w, E, "x", (4,), chunks=[(1, 1, 1, 1)]), 0)
        coll = w.fn(catalog.NC, "new_collection")(prog.node)
        if kind == "take-of-stored":
            # the array store(..., return_stored=True) hands back, indexed with an integer list: the take meets the store step,
            # whose target slices are a per-block payload that cannot be reordered -- the optimizer has to get through it
            target = np.empty((2,))
            stored = w.fn("dask_array.io._store", "store")(coll, target, compute=False, return_stored=True, lock=False)
            taken = stored[[1, 0, 0]]
            E.ensure("advertised-shape", tuple(taken.shape) == (3,))
            for stage in ("simplified", "lowered"):
                st = catalog.stages(E, w, taken.expr, {stage})[stage]
                E.ensure(f"{stage}-keeps-the-shape", tuple(st.shape) == (3,))
            for n in list(w.space.created):
                real = builtins.type(n).__dict__.get("_symx_real", builtins.type(n))
                if real.__name__ == "Shuffle":
                    E.ensure("a-take-is-only-ever-applied-to-arrays", hasattr(n.operands[0], "_meta"))
            return
        adv = tuple(map(tuple, coll.chunks))
        target = np.empty(tuple(int(sum(c)) for c in adv))
        stored = w.fn("dask_array.io._store", "store")(coll, target, compute=False, return_stored=True, lock=False)
        if kind == "row-of-stored":
            # an index on only some axes of the lazily stored array: whatever the optimizer pushes below the store step, the
            # blocks the step receives are still the blocks its target slices were cut for
            stored = stored[E.int("row", 0, 2)]
        for stage in ("lowered",):  # (after fusion the store step is part of a fused group)
            st = catalog.stages(E, w, stored.expr, {stage})[stage]
            seen = 0
            for n in _walk(st):
                real = builtins.type(n).__dict__.get("_symx_real", builtins.type(n))
                if real.__name__ != "Blockwise":
                    continue
                args = list(n.args)
                deps = [a for a in args[::2] if builtins.type(a).__name__ == "ArraySliceDep"]
                arrs = [a for a in args[::2] if hasattr(a, "_meta")]
                for d in deps:
                    seen += 1
                    for a in arrs:
                        E.ensure(f"{stage}-source-blocks-are-the-blocks-the-target-slices-were-cut-for",
                                 tuple(map(tuple, a.chunks)) == tuple(map(tuple, d.chunks)))
            E.ensure(f"{stage}-store-step-found", seen >= 1)

    def api(values):
        import dask_array as da

        if kind == "take-of-stored":
            x = np.arange(2.0) + 5
            r = da.store(da.from_array(x, chunks=1), np.zeros(2), lock=False, return_stored=True, compute=False)
            try:
                got = r[[1, 0, 0]].compute(scheduler="sync")
            except Exception as ex:
                return dict(ok=False, detail=f"stored[[1, 0, 0]] raised {type(ex).__name__}: {str(ex)[:100]}")
            return dict(ok=bool(np.array_equal(got, x[[1, 0, 0]])), detail=f"stored[[1, 0, 0]] = {got.tolist()}")
        if kind == "row-of-stored":
            A = np.arange(9.0).reshape(3, 3) + 1
            t = np.zeros((3, 3))
            r = da.store(da.from_array(A, chunks=((2, 1), (1, 2))), t, lock=False, return_stored=True, compute=False)
            got = r[values["row"]].compute(scheduler="sync")
            ok = np.array_equal(got, A[values["row"]]) and all(np.array_equal(t[i], A[i]) or not t[i].any() for i in range(3))
            return dict(ok=bool(ok), detail=f"stored[{values['row']}] = {got.tolist()}, target afterwards {t.tolist()}")
        if kind == "reversed-sum":
            x = np.arange(6.0)
            y = (da.from_array(x, chunks=((1, 1, 4),)) + da.from_array(x * 10, chunks=((1, 4, 1),)))[::-1]
            want = (x + x * 10)[::-1]
        else:
            W_ = values.get("window", 2)
            x = np.arange(4.0) ** 2
            y = da.sliding_window_view(da.from_array(x, chunks=1), W_).sum(axis=-1)
            want = np.lib.stride_tricks.sliding_window_view(x, W_).sum(-1)
        t = np.full(want.shape, -7.0)
        try:
            da.store(y, t, lock=False, scheduler="sync")
        except Exception as ex:
            return dict(ok=False, detail=f"store raised {type(ex).__name__}: {str(ex)[:100]}")
        return dict(ok=bool(np.array_equal(t, want)), detail=f"target after store {t.tolist()}, expected {want.tolist()}")

    return Instance(f"store_over_regridded_source[{kind}]", body, dict(kind=kind), unit="store + map_blocks + optimizer (layout of the ArraySliceDep payload)",
                    api_replay=api)


def instances(tier):
    q = tier == "quick"
    out = []
    out.append(inst_store_over_regridded_source("reversed-sum"))
    out.append(inst_store_over_regridded_source("sliding-sum"))
    out.append(inst_store_over_regridded_source("take-of-stored"))
    out.append(inst_store_over_regridded_source("row-of-stored"))
    nbs = [1, 2, 3] if q else [1, 2, 3, 4]
    for m in nbs:
        out.append(inst_store([(m,)], [None]))
        out.append(inst_store([(m,)], [(R_FULL,)]))
    out.append(inst_store([(2,)], [(R_LO,)]))
    out.append(inst_store([(2,)], [(R_HI,)]))
    out.append(inst_store([(2,)], [((1, 1, 2),)]))
    out.append(inst_store([(2,)], [((1, 0, 2),)]))
    out.append(inst_store([(2, 2)], [None]))
    out.append(inst_store([(2, 2)], [(R_FULL, R_LO)]))
    out.append(inst_store([(2, 1)], [((1, 1, 2), R_FULL)]))
    for rs in (False, True):
        out.append(inst_store([(2,)], [(R_FULL,)], return_stored=True, compute=rs))
        out.append(inst_store([(2,), (2,)], [(R_FULL,), (R_LO,)], return_stored=True, compute=rs))
    out.append(inst_store([(2,), (1,)], [(R_FULL,), None]))
    out.append(inst_store([(1,), (2,)], [None, None], return_stored=True))
    out.append(inst_store([(2,)], [(R_FULL,)], compute=False))
    if not q:
        out.append(inst_store([(3, 2)], [(R_FULL, R_FULL)]))
        out.append(inst_store([(2, 2)], [((1, 1, 2), (1, 0, 3))]))
        out.append(inst_store([(3,)], [((1, 1, 3),)], return_stored=True))
        out.append(inst_store([(2, 2), (2,)], [(R_FULL, R_LO), (R_HI,)], return_stored=True))
    steps = [None, 1, 2] if q else [None, 1, 2, 3]
    for rstep in steps:
        for ps, pe, pis, pie in itertools.product((0, 1), repeat=4):
            out.append(inst_kernel(1, ps, pe, rstep, pis, pie))
    out.append(inst_kernel(2, 1, 1, None, 1, 1))
    out.append(inst_kernel(2, 1, 0, 2, 0, 1))
    return out
