"""C04 -- Graphs are closed, acyclic and produce exactly the advertised keys (per expression class, symbolic sizes)."""
from __future__ import annotations

from symx.graph import grid
from symx.oracle import AND, EQ

from . import catalog
from .common import unit_hashes
from .C03 import UNITS as _U

PROPERTY = "C04"
UNITS = _U + [(catalog.MT, "_materialize"), (catalog.BW, "_compute_block_id"), (catalog.BW, "_broadcast_block_id"), (catalog.BW, "Blockwise._idx_to_block"),
              (catalog.EX, "RootAlias._layer"), (catalog.EX, "ChunksOverride._layer")]
STUBS = catalog.STUBS
ASSUMPTIONS = [
    "programs are the enumerated catalogue (harness/catalog.py); block counts and ranks concrete, chunk sizes and index "
    "bounds symbolic and unbounded",
    "name stability under the real optimizer, the RootAlias collision guard in _materialize, FromGraph/persisted graphs and "
    "cross-collection merging are outside this check (object identity / naming by content hash)",
]


def units():
    return unit_hashes(UNITS)


def bounds(tier):
    return dict(programs=sorted(catalog.programs(tier)), sizes="unbounded")


def _body(E, w, prog):
    from dask._task_spec import Alias

    name = prog.node._name
    adv = prog.node.chunks
    nb = tuple(len(c) for c in adv)
    for stage in ("materialized", "materialized_off"):
        m = catalog.stages(E, w, prog.node, {stage})[stage]
        # optimization never changes the collection's name; the graph defines exactly the advertised key grid under it
        E.ensure(f"{stage}-keeps-the-root-name", m._name == name)
        whole, dsk, r = catalog.run_tree(E, m, adv, stage, check_keys=True)
        # executing every block resolved every referenced key (a missing one fails '<stage>-blocks-closed', a cycle is
        # reported by the runner); dependencies never point at the task itself
        E.ensure(f"{stage}-dependencies-defined", all(b in dsk for (_a, b) in r.refs))
        E.ensure(f"{stage}-no-self-dependency", all(a != b for (a, b) in r.refs))
        E.ensure(f"{stage}-numblocks", tuple(m.numblocks) == nb)
        # keys are plain (str, int...) tuples
        E.ensure(f"{stage}-keys-wellformed", all(isinstance(k, (tuple, str)) for k in dsk))


def instances(tier):
    return catalog.make_instances(tier, "C04", _body, "_materialize + key grids and dependencies of every catalogue class")
