"""C04 -- Graphs are closed, acyclic and produce exactly the advertised keys (per expression class, symbolic sizes)."""
from __future__ import annotations

import numpy as np

from symx.graph import grid
from symx.oracle import AND, EQ

from . import catalog
from .common import unit_hashes
from .C03 import UNITS as _U

PROPERTY = "C04"
UNITS = _U + [(catalog.MT, "_materialize"), (catalog.CO, "Array._cached_dask_keys"), (catalog.CO, "Array._replace_expr"),
              (catalog.CO, "Array._lowered_expr"), (catalog.BW, "_compute_block_id"), (catalog.BW, "_broadcast_block_id"), (catalog.BW, "Blockwise._idx_to_block"),
              (catalog.EX, "RootAlias._layer"), (catalog.EX, "ChunksOverride._layer")]
STUBS = catalog.STUBS
ASSUMPTIONS = [
    "programs are the enumerated catalogue (harness/catalog.py); block counts and ranks concrete, chunk sizes and index "
    "bounds symbolic and unbounded",
    "name stability under the real optimizer, the RootAlias collision guard in _materialize, FromGraph/persisted graphs and "
    "cross-collection merging are outside this check (object identity / naming by content hash)",
]


def units():
    return unit_hashes(UNITS)


def bounds(tier):
    return dict(programs=sorted(catalog.programs(tier)), sizes="unbounded")


def _body(E, w, prog):
    from dask._task_spec import Alias

    name = prog.node._name
    adv = prog.node.chunks
    nb = tuple(len(c) for c in adv)
    for stage in ("materialized", "materialized_off"):
        m = catalog.stages(E, w, prog.node, {stage})[stage]
        # optimization never changes the collection's name; the graph defines exactly the advertised key grid under it
        E.ensure(f"{stage}-keeps-the-root-name", m._name == name)
        whole, dsk, r = catalog.run_tree(E, m, adv, stage, check_keys=True)
        # executing every block resolved every referenced key (a missing one fails '<stage>-blocks-closed', a cycle is
        # reported by the runner); dependencies never point at the task itself
        E.ensure(f"{stage}-dependencies-defined", all(b in dsk for (_a, b) in r.refs))
        E.ensure(f"{stage}-no-self-dependency", all(a != b for (a, b) in r.refs))
        E.ensure(f"{stage}-numblocks", tuple(m.numblocks) == nb)
        # keys are plain (str, int...) tuples
        E.ensure(f"{stage}-keys-wellformed", all(isinstance(k, (tuple, str)) for k in dsk))


def _flat(keys):
    out = []
    for k in keys:
        if isinstance(k, list):
            out.extend(_flat(k))
        else:
            out.append(k)
    return out


def inst_collection_keys():
    """the collection object: __dask_keys__() is the raw-name grid, the materialized graph defines those keys, and both follow
    the expression when it is replaced in place (what x[idx] = v, out= and compute_chunk_sizes() do), even after the keys
    were read once"""
    from symx.runner import Instance
    import operator

    def body(E):
        w = catalog.W(E)
        x = catalog.source(w, E, "x", (2, 2))
        p1 = catalog.p_elemwise(w, operator.neg, x)
        p2 = catalog.p_transpose(w, catalog.p_rechunk(w, x, ((x.node.shape[0],), x.node.chunks[1])), (1, 0))
        coll = w.fn(catalog.NC, "new_collection")(p1.node)

        def check(prog, tag):
            name = prog.node._name
            nb = tuple(len(c) for c in prog.node.chunks)
            E.ensure(f"{tag}-collection-name", coll._name == name and coll.name == name)
            E.ensure(f"{tag}-keys-are-the-raw-grid", sorted(_flat(coll.__dask_keys__())) == sorted((name,) + g for g in grid(nb)))
            low = coll._lowered_expr
            dsk = catalog._layers(low)
            E.ensure(f"{tag}-graph-defines-every-advertised-key", all(k in dsk for k in _flat(coll.__dask_keys__())))

        check(p1, "fresh")
        coll._replace_expr(p2.node)
        check(p2, "after-replace")

    return Instance("c04[collection keys before/after in-place expression replacement]", body, {}, unit="Array.__dask_keys__/_cached_dask_keys/_replace_expr/_lowered_expr")


def _structure_ok(E, dsk, m, name, nb, tag):
    """closure / acyclicity / key grid read off the task objects themselves (dask's GraphNode.dependencies), for graphs whose
    kernels have no symbolic-array meaning and are therefore not executed"""
    E.ensure(f"{tag}-keeps-the-root-name", m._name == name)
    want = {(name,) + g for g in grid(nb)}
    have = {k for k in dsk if isinstance(k, tuple) and k and k[0] == name and len(k) == 1 + len(nb) and all(isinstance(i, (int, np.integer)) for i in k[1:])}
    E.ensure(f"{tag}-key-grid", have == want)
    deps = {k: tuple(getattr(t, "dependencies", ()) or ()) for k, t in dsk.items()}
    missing = sorted({repr(d) for ds in deps.values() for d in ds if d not in dsk})
    E.ensure(f"{tag}-dependencies-defined", not missing, site=("missing " + missing[0]) if missing else None)
    state = {}

    def acyclic(k):
        stack = [(k, iter(deps.get(k, ())))]
        state[k] = 1
        while stack:
            node, it = stack[-1]
            nxt = next(it, None)
            if nxt is None:
                state[node] = 2
                stack.pop()
                continue
            if nxt not in deps:
                continue
            if state.get(nxt) == 1:
                return False
            if state.get(nxt) is None:
                state[nxt] = 1
                stack.append((nxt, iter(deps[nxt])))
        return True

    E.ensure(f"{tag}-acyclic", all(acyclic(k) for k in deps if state.get(k) is None))


def inst_structure(label, build, blocks):
    """programs whose block functions are data-dependent NumPy code (np.unique ...): the graph is not executed; its keys and
    task dependencies are checked for every chunk-size assignment (how many blocks a companion array gets depends on them)"""
    from symx.runner import Instance

    def body(E):
        w = catalog.W(E)
        x = catalog.source(w, E, "x", blocks)
        coll = w.fn(catalog.NC, "new_collection")(x.node)
        outs = build(w, coll)
        for j, out in enumerate(outs if isinstance(outs, (tuple, list)) else [outs]):
            node = out.expr
            for stage in ("materialized", "materialized_off"):
                m = catalog.stages(E, w, node, {stage})[stage]
                dsk = catalog._layers(m)
                _structure_ok(E, dsk, m, node._name, tuple(len(c) for c in node.chunks), f"out{j}-{stage}")

    return Instance(f"c04-structure[{label},blocks={blocks}]", body, dict(program=label, blocks=blocks),
                    unit="_materialize + _layer of every node (keys and dependencies only)")


def _unique(**kw):
    return lambda w, coll: w.fn("dask_array.routines._unique", "unique")(coll, **kw)


def instances(tier):
    extra = [inst_structure("unique(x,return_counts)", _unique(return_counts=True), (3,)),
             inst_structure("unique(x,return_index,return_counts)", _unique(return_index=True, return_counts=True), (2,)),
             inst_structure("unique(x)", _unique(), (3,))]
    return extra + catalog.make_instances(tier, "C04", _body, "_materialize + key grids and dependencies of every catalogue class") + \
        [inst_collection_keys()]
