"""C13 -- Slice algebra helpers are exact (DESIGN 6, C13)."""
from __future__ import annotations

import itertools

from symx.oracle import (AND, EQ, IFF, IMPLIES, ITE, NOT, OR, cumsum0, kth, locate, same_selection, sel_len,
                         selected, triple, view_identity, view_index, views_equal, int_in_range)
from symx.core import range_len, slice_indices
from symx.runner import Instance
from symx.world import SHIM_LIST

from .common import unit_hashes, world

PROPERTY = "C13"
MODS = ["dask_array.slicing._utils", "dask_array.slicing._basic"]
U = "dask_array.slicing._utils"
B = "dask_array.slicing._basic"
UNITS = [(U, "normalize_slice"), (U, "posify_index"), (U, "fuse_slice"), (U, "_normalize_slice_for_fusion"),
         (U, "_slice_1d"), (U, "new_blockdim"), (U, "normalize_index"), (U, "check_index"), (U, "sanitize_index"),
         (U, "replace_ellipsis"), (B, "_compose_slices"), (B, "_compute_sliced_chunks"),
         (B, "SliceSlicesIntegers._slice_chunks")]
STUBS = SHIM_LIST
ASSUMPTIONS = [
    "structure is concrete per instance: None-pattern of each slice, slice step, number of blocks, tuple shape",
    "chunk sizes >= 1 (quick) / >= 0 (thorough zero-width instances); all other ints unbounded",
    "ceil((1.0*stop-start)/step) in new_blockdim is modelled over exact rationals (sizes < 2**53)",
    "_slice_1d/new_blockdim receive indices produced by the real normalize_index (their only producer)",
    "_compose_slices is exercised with unit-step slices, the only form FromArray._accept_slice passes",
    "fuse_slice on list/array members is outside the claim",
]


def units():
    return unit_hashes(UNITS)


def bounds(tier):
    q = tier == "quick"
    return dict(blocks_per_axis=[1, 2, 3] if q else [1, 2, 3, 4, 5], steps=[1, 2, 3, -1, -2, -3] if q else
                [1, 2, 3, 4, 5, -1, -2, -3, -4, -5], ints="unbounded (mathematical integers)",
                tuple_rank="<=2 (quick) / <=3 (thorough)")


def W(E):
    return world("C13", E.symbolic, MODS)


def mk(E, name, present):
    return E.int(name) if present else None


# ------------------------------------------------------------------ (a) normalize_slice


def inst_normalize_slice(ps, pe, step):
    def body(E):
        n = E.int("n", 0)
        s = E.slice(mk(E, "start", ps), mk(E, "stop", pe), step)
        out = W(E).fn(U, "normalize_slice")(s, n)
        E.observe("out", out)
        t_in, t_out = triple(s, n), triple(out, n)
        E.ensure("same-selection", same_selection(t_in, t_out))
        if out.start is None and out.stop is None and out.step is None:
            E.ensure("colon-only-for-identity", AND(sel_len(t_in) == n, IMPLIES(n >= 1, t_in[0] == 0),
                                                   IMPLIES(n >= 2, t_in[2] == 1)))

    def api(values):
        import numpy as np
        import dask_array as da

        n = values["n"]
        if n > 200:
            return dict(ok=False, detail="n too large for an API replay; unit-level replay stands")
        s = slice(values.get("start"), values.get("stop"), step)
        x = np.arange(n)
        got = da.from_array(x, chunks=max(1, n // 2 or 1))[s].compute()
        return dict(ok=bool(np.array_equal(got, x[s])), detail=f"da[{s}]={got.tolist()[:8]} numpy={x[s].tolist()[:8]}")

    return Instance(f"normalize_slice[start={ps},stop={pe},step={step}]", body, dict(start=ps, stop=pe, step=step),
                    unit="normalize_slice", api_replay=api)


# ------------------------------------------------------------------ (b) fuse_slice


def inst_fuse_ss(pa0, pa1, sa, pb0, pb1, sb):
    def body(E):
        n = E.int("n", 0)
        a = E.slice(mk(E, "a0", pa0), mk(E, "a1", pa1), sa)
        b = E.slice(mk(E, "b0", pb0), mk(E, "b1", pb1), sb)
        try:
            f = W(E).fn(U, "fuse_slice")(a, b)
        except NotImplementedError:
            E.observe("declined", True)
            return True
        E.observe("fused", f)
        seq = view_index(view_index(view_identity((n,)), (a,)), (b,))
        one = view_index(view_identity((n,)), (f,))
        return views_equal(seq, one)

    return Instance(f"fuse_slice[slice({pa0},{pa1},{sa}),slice({pb0},{pb1},{sb})]", body,
                    dict(a=(pa0, pa1, sa), b=(pb0, pb1, sb)), unit="fuse_slice")


def inst_fuse_si(pa0, pa1, sa):
    def body(E):
        n = E.int("n", 0)
        a = E.slice(mk(E, "a0", pa0), mk(E, "a1", pa1), sa)
        i = E.int("i")
        try:
            f = W(E).fn(U, "fuse_slice")(a, i)
        except NotImplementedError:
            return True
        E.observe("fused", f)
        ta = triple(a, n)
        la = sel_len(ta)
        # x[a][i] is defined when i is in range of the intermediate; then x[fused] must be it
        return IMPLIES(AND(i >= 0, i < la), AND(f == kth(ta, i), f >= 0, f < n))

    return Instance(f"fuse_slice[slice({pa0},{pa1},{sa}),int]", body, dict(a=(pa0, pa1, sa)), unit="fuse_slice")


def _mk_index(E, spec, prefix):
    """spec: tuple of 'i' | 'n' (None) | (ps, pe, step)"""
    out = []
    for k, s in enumerate(spec):
        if s == "i":
            out.append(E.int(f"{prefix}{k}"))
        elif s == "n":
            out.append(None)
        else:
            out.append(E.slice(mk(E, f"{prefix}{k}s", s[0]), mk(E, f"{prefix}{k}e", s[1]), s[2]))
    return tuple(out)


def inst_fuse_tuple(rank, aspec, bspec):
    """tuple o tuple through the real producer: both indices come out of normalize_index, as
    SliceSlicesIntegers._simplify_down passes them."""

    def body(E):
        shape = tuple(E.int(f"n{d}", 0) for d in range(rank))
        w = W(E)
        a_raw = _mk_index(E, aspec, "a")
        v0 = view_identity(shape)
        try:
            a = w.fn(U, "normalize_index")(a_raw, shape)
        except IndexError:
            return True
        va = view_index(v0, a_raw)
        b_raw = _mk_index(E, bspec, "b")
        mid = tuple(va.shape)
        try:
            b = w.fn(U, "normalize_index")(b_raw, mid)
        except IndexError:
            return True
        vb = view_index(va, b_raw)
        try:
            f = w.fn(U, "fuse_slice")(a, b)
        except NotImplementedError:
            E.observe("declined", True)
            return True
        E.observe("fused", f)
        vf = view_index(v0, f)
        return views_equal(vb, vf)

    return Instance(f"fuse_slice_tuple[rank={rank},a={aspec},b={bspec}]", body, dict(rank=rank, a=aspec, b=bspec),
                    unit="normalize_index+fuse_slice", cost=3 * (4 if rank >= 3 else 1), wall_s=300 if rank < 3 else 1200)


# ------------------------------------------------------------------ (c) _compose_slices


def inst_compose(po0, po1, so, pi0, pi1, si):
    def body(E):
        n = E.int("n", 0)
        outer = E.slice(mk(E, "o0", po0), mk(E, "o1", po1), so)
        inner = E.slice(mk(E, "i0", pi0), mk(E, "i1", pi1), si)
        c = W(E).fn(B, "_compose_slices")(outer, inner, n)
        E.observe("composed", c)
        seq = view_index(view_index(view_identity((n,)), (outer,)), (inner,))
        one = view_index(view_identity((n,)), (c,))
        return views_equal(seq, one)

    return Instance(f"_compose_slices[outer=({po0},{po1},{so}),inner=({pi0},{pi1},{si})]", body,
                    dict(outer=(po0, po1, so), inner=(pi0, pi1, si)), unit="_compose_slices")


# ------------------------------------------------------------------ (d) per-block slice plan


def _plan_setup(E, m, lo):
    cs = tuple(E.int(f"c{i}", lo) for i in range(m))
    n = sum(cs)
    return cs, n


def inst_plan(m, ps, pe, step, lo=1):
    def body(E):
        w = W(E)
        cs, n = _plan_setup(E, m, lo)
        raw = E.slice(mk(E, "start", ps), mk(E, "stop", pe), step)
        (idx,) = w.fn(U, "normalize_index")((raw,), (n,))
        d = w.fn(U, "_slice_1d")(n, cs, idx)
        nb = w.fn(U, "new_blockdim")(n, cs, idx)
        E.observe("plan", {k: v for k, v in d.items()})
        E.observe("new_blockdim", list(nb))
        g = triple(raw, n)
        L = sel_len(g)
        gstep = g[2]
        empty_marker = len(d) == 1 and 0 in d and EQ(d[0], slice(0, 0, 1)) is True
        # (d1) block-local membership for a skolem position
        p = E.int("p")
        E.assume(AND(p >= 0, p < n))
        b, q = locate(p, cs)
        if b in d and not empty_marker:
            lt = triple(d[b], cs[b])
            E.ensure("d1-membership", IFF(selected(p, g), selected(q, lt)))
        else:
            E.ensure("d1-membership", NOT(selected(p, g)))
        # (d2) pieces stay inside their block, run with the global stride and sign
        pieces = []
        for blk in sorted(d, reverse=gstep < 0):
            if empty_marker:
                break
            lt = triple(d[blk], cs[blk])
            pieces.append((blk, lt))
            E.ensure("d2-stride", lt[2] == gstep)
        # (d3) advertised chunk sizes are the piece lengths, in traversal order
        if empty_marker:
            E.ensure("d3-empty", AND(L == 0, len(nb) == 1, nb[0] == 0))
        else:
            E.ensure("d3-count", len(nb) == len(pieces))
            if len(nb) == len(pieces):
                E.ensure("d3-lengths", AND(*[x == sel_len(lt) for x, (_blk, lt) in zip(nb, pieces)]))
        # (d5) global count, only for |step| = 1 (sum of ceil-divisions otherwise; see DESIGN)
        if abs(gstep) == 1:
            E.ensure("d5-total", sum(nb) == L)

    def api(values):
        import numpy as np
        import dask_array as da

        cs = tuple(values[f"c{i}"] for i in range(m))
        if sum(cs) > 400:
            return dict(ok=False, detail="too large for an API replay; unit-level replay stands")
        s = slice(values.get("start"), values.get("stop"), step)
        x = np.arange(sum(cs))
        y = da.from_array(x, chunks=(cs,))[s]
        got = y.compute()
        ok = bool(np.array_equal(got, x[s])) and all(
            c == len(blk) for c, blk in zip(y.chunks[0], [y.blocks[i].compute() for i in range(y.numblocks[0])]))
        return dict(ok=ok, detail=f"chunks={cs} slice={s}: got {got.tolist()[:10]} want {x[s].tolist()[:10]} advertised={y.chunks}")

    return Instance(f"slice_plan[blocks={m},start={ps},stop={pe},step={step},min_chunk={lo}]", body,
                    dict(blocks=m, start=ps, stop=pe, step=step, min_chunk=lo), unit="normalize_index+_slice_1d+new_blockdim",
                    api_replay=api, cost=m * (2 if abs(step or 1) > 1 else 1) * (3 if (step or 1) < 0 else 1))


def inst_plan_int(m, lo=1):
    def body(E):
        w = W(E)
        cs, n = _plan_setup(E, m, lo)
        i = E.int("i")
        try:
            (idx,) = w.fn(U, "normalize_index")((i,), (n,))
        except IndexError:
            return NOT(int_in_range(i, n))
        E.ensure("in-range-accepted", int_in_range(i, n))
        d = w.fn(U, "_slice_1d")(n, cs, idx)
        E.observe("plan", d)
        if len(d) != 1:
            return False
        ((blk, off),) = d.items()
        pos = ITE(i < 0, i + n, i)
        return AND(off >= 0, off < cs[blk], sum(cs[:blk]) + off == pos)

    return Instance(f"slice_plan_int[blocks={m},min_chunk={lo}]", body, dict(blocks=m, min_chunk=lo),
                    unit="normalize_index+_slice_1d")


# ------------------------------------------------------------------ (e) sliced chunk helpers


def inst_sliced_chunks(m, ps, pe, step, lo=1):
    def body(E):
        w = W(E)
        cs, n = _plan_setup(E, m, lo)
        slc = E.slice(mk(E, "start", ps), mk(E, "stop", pe), step)
        res = w.fn(B, "_compute_sliced_chunks")(cs, slc, n)
        E.observe("res", list(res))
        t = triple(slc, n)
        L = sel_len(t)
        E.ensure("nonneg", AND(*[c >= 0 for c in res]))
        E.ensure("sum", sum(res) == L)
        st = t[2]
        if st == 1:
            # reference: overlaps of [start, stop) with each block, in order
            bnd = cumsum0(cs)
            ref = []
            for k in range(m):
                lo_, hi_ = ITE(bnd[k] > t[0], bnd[k], t[0]), ITE(bnd[k + 1] < t[1], bnd[k + 1], t[1])
                if hi_ - lo_ > 0:
                    ref.append(hi_ - lo_)
            if not ref:
                ref = [0]
            E.ensure("pieces", EQ(tuple(res), tuple(ref)))

    return Instance(f"_compute_sliced_chunks[blocks={m},start={ps},stop={pe},step={step}{',zero-width chunks allowed' if lo == 0 else ''}]", body,
                    dict(blocks=m, start=ps, stop=pe, step=step, min_chunk=lo), unit="_compute_sliced_chunks")


def inst_slice_chunks(m):
    def body(E):
        import dask_array.slicing._basic as Bm

        w = W(E)
        cs, n = _plan_setup(E, m, 1)
        start = E.int("start", 0)
        length = E.int("length", 0)
        E.assume(start + length <= n)
        res = w.method(Bm.SliceSlicesIntegers, "_slice_chunks")(None, cs, start, length)
        E.observe("res", list(res))
        bnd = cumsum0(cs)
        ref = []
        for k in range(m):
            lo_, hi_ = ITE(bnd[k] > start, bnd[k], start), ITE(bnd[k + 1] < start + length, bnd[k + 1], start + length)
            if hi_ - lo_ > 0:
                ref.append(hi_ - lo_)
        if not ref:
            ref = [0]
        return AND(EQ(tuple(res), tuple(ref)), sum(res) == length)

    return Instance(f"_slice_chunks[blocks={m}]", body, dict(blocks=m), unit="SliceSlicesIntegers._slice_chunks")


# ------------------------------------------------------------------ instance table


def instances(tier):
    q = tier == "quick"
    steps = [None, 1, 2, 3, -1, -2, -3] if q else [None, 1, 2, 3, 4, 5, -1, -2, -3, -4, -5]
    out = []
    for ps, pe in itertools.product((0, 1), repeat=2):
        for st in steps:
            out.append(inst_normalize_slice(ps, pe, st))
    fsteps = [None, 1, 2, 3] if q else [None, 1, 2, 3, 4, 5]
    for sa, sb in itertools.product(fsteps, repeat=2):
        for pa0, pa1, pb0, pb1 in itertools.product((0, 1), repeat=4):
            if q and (sa in (None,) and pa0 == 0 and pa1 == 0) and (sb is None and pb0 == 0 and pb1 == 0):
                pass
            out.append(inst_fuse_ss(pa0, pa1, sa, pb0, pb1, sb))
    for sa in fsteps + [-1]:
        for pa0, pa1 in itertools.product((0, 1), repeat=2):
            out.append(inst_fuse_si(pa0, pa1, sa))
    # negative steps are declined by fuse_slice: one instance each way checks that it declines
    out.append(inst_fuse_ss(1, 1, -1, 1, 1, 1))
    out.append(inst_fuse_ss(1, 1, 1, 1, 1, -2))
    full = (1, 1, None)
    S = lambda st=None: (1, 1, st)  # noqa: E731
    tuples = [
        (2, (S(), S()), (S(), S())),
        (2, (S(2), S()), (S(), S(3))),
        (2, ("i", S()), (S(),)),
        (2, (S(), "i"), (S(2),)),
        (2, (S(), S()), ("i", S())),
        (2, (S(), S()), (S(), "i")),
        (2, (S(), S()), ("n", S(), S())),
        (2, (S(), S()), (S(), "n", S())),
        (2, (S(), S()), (S(), S(), "n")),
        (2, ("i", S()), ("n", S())),
        (2, (S(), S(-1)), (S(), S())),
    ]
    if not q:
        tuples += [
            (3, (S(), S(2), S()), (S(3), S(), S())),
            (3, (S(), "i", S()), (S(), S())),
            (3, (S(), "i", S()), ("n", S(), "i")),
            (3, ("i", S(), S()), (S(), "n", "i")),
            (3, (S(), S(), S()), ("i", "n", S(), "n", S())),
            (2, ((0, 1, None), (1, 0, 2)), ((1, 0, None), (0, 0, 3))),
        ]
    for r, a, b in tuples:
        out.append(inst_fuse_tuple(r, a, b))
    for po0, po1, pi0, pi1 in itertools.product((0, 1), repeat=4):
        for so, si in ((None, None), (1, None), (None, 1), (1, 1)):
            if q and (so, si) in ((1, None), (None, 1)):
                continue
            out.append(inst_compose(po0, po1, so, pi0, pi1, si))
    blocks = [1, 2, 3] if q else [1, 2, 3, 4, 5]
    psteps = [None, 1, 2, 3, -1, -2, -3] if q else [None, 1, 2, 3, 4, 5, -1, -2, -3, -4, -5]
    for m in blocks:
        for st in psteps:
            if m >= 5 and st not in (None, 1, 2, -1, -2):
                continue
            for ps, pe in itertools.product((0, 1), repeat=2):
                out.append(inst_plan(m, ps, pe, st))
        out.append(inst_plan_int(m))
    if q:
        # zero-width chunks (legal layouts, e.g. after boolean filtering)
        for st in (None, -1, -2, 2):
            for ps, pe in ((0, 0), (1, 1)):
                out.append(inst_plan(3, ps, pe, st, lo=0))
    if not q:
        for m in (2, 3):
            for st in (None, 2, -1, -2):
                for ps, pe in itertools.product((0, 1), repeat=2):
                    out.append(inst_plan(m, ps, pe, st, lo=0))
            out.append(inst_plan_int(m, lo=0))
    for m in blocks[:4]:
        for st in ([None, 1, -1, 2] if q else [None, 1, -1, 2, -2, 3]):
            for ps, pe in itertools.product((0, 1), repeat=2):
                out.append(inst_sliced_chunks(m, ps, pe, st))
        out.append(inst_slice_chunks(m))
    # zero-width blocks inside the window are dropped, as SliceSlicesIntegers.chunks (new_blockdim) drops them
    out.append(inst_sliced_chunks(3, 1, 1, None, lo=0))
    out.append(inst_sliced_chunks(3, 1, 1, 1, lo=0))
    return out
