"""C05 -- Every compute/persist/optimize entry point agrees (the parts that are code of this repository).

For every catalogue program x (built on symbolic sources, sizes / bounds / data universally quantified):

* compute: the pinned collection (``Array._pinned``: ``_lowered_expr``) under the repository's ``FinalizeComputeArray``
  layer (what ``Array.compute`` hands to dask) yields NumPy's value -- the same obligation as C01's ``computed`` stage;
* persist: the graph of the pinned collection is executed for exactly the keys ``__dask_keys__()`` advertises (this
  stands for the scheduler), the results dict is handed to the rebuild function ``__dask_postpersist__()`` returns
  (``from_graph`` -> ``FromGraph``), and the rebuilt collection keeps x's name, chunks and dtype, advertises the same keys
  and yields NumPy's value block by block; a scheduler that renames the outputs (a bare layer under another name) is
  bridged by block id as well;
* optimize: ``x.optimize()`` keeps the dtype and yields the same value; ``dask.optimize(x)`` -- dask's generic walk
  (``Expr.__dask_graph__``) over the collection's un-lowered expression followed by the ``__dask_postpersist__`` rebuild --
  keeps name, chunks and dtype and yields the same value;
* follow-on operations applied to the persisted and to the optimized collection (negation, a symbolic slice) yield what
  they yield on x."""
from __future__ import annotations

import operator

from symx.oracle import AND, EQ
from symx.sarr import same_array

from . import catalog
from .common import unit_hashes

PROPERTY = "C05"
CO = catalog.CO
FG = "dask_array.io._from_graph"
UNITS = [(CO, "Array._pinned"), (CO, "Array.__dask_postpersist__"), (CO, "Array.optimize"), (CO, "Array._cached_dask_keys"),
         (CO, "Array._lowered_expr"), (FG, "from_graph"), (FG, "FromGraph._layer"), (FG, "FromGraph._find_layer_key"),
         (FG, "FromGraph._inferred_layer_name"), (catalog.EX, "FinalizeComputeArray._layer"), (catalog.MT, "_materialize")]
STUBS = catalog.STUBS + [
    "scheduler -> the graph runner executes the pinned graph for the advertised keys and returns {key: block}; dask.base's "
    "compute/persist/optimize drivers (collections_to_expr, unpack_collections, repack) are not executed",
]
ASSUMPTIONS = [
    "entry points decided: Array.compute (pinned expression + finalize layer), Array.persist (pinned graph -> results -> "
    "__dask_postpersist__ rebuild, with own keys and with renamed outputs), Array.optimize; follow-on operations: negation and "
    "a basic slice; programs are the catalogue's (names in evidence.bounds)",
    "NOT decided: dask.compute/dask.persist/dask.optimize over several collections (dask's own drivers), to_delayed, "
    "distributed futures, persist of a raw expression through dask's generic optimizer",
]


def units():
    return unit_hashes(UNITS)


def _select(name):
    # (x3+y3)(zero-width...): its unification picks among tied layouts by set order, which concrete replays cannot follow
    return not any(t in name for t in ("vindex", "sliding_window_view(x3,W,0).sum", "unaligned,policy=auto", "(x3+y3)(zero-width"))


def _programs(tier):
    progs = catalog.programs(tier)
    if tier == "quick":
        # the cheaper half of the catalogue plus one representative of every heavier family
        keep = {"x2+y3(unaligned)", "rechunk(x2->2)[a:b]", "sum(x2x2,axis=1)[a:b]", "x3[[2,0,1]]", "concatenate([x2,y2],0)[a:b]",
                "map_blocks(f_info,x2)[a:b]", "add(x2,y2,where=m3(own chunks),out=o2)", "sliding_window_view(x3,2,0)",
                "x2x2[a:b][c:d](fused slices)"}
        return [n for n, (_f, cost) in progs.items() if _select(n) and (cost <= 3 or n in keep)]
    return [n for n in progs if _select(n)]


def bounds(tier):
    return dict(programs=sorted(_programs(tier)), sizes="unbounded")


def _flat(keys):
    out = []
    for k in keys:
        if isinstance(k, list):
            out.extend(_flat(k))
        else:
            out.append(k)
    return out


def _body(E, w, prog):
    from symx.graph import Runner, run_blocks

    coll = w.fn(catalog.NC, "new_collection")(prog.node)
    name, chunks = coll._name, coll.chunks
    pinned = coll._pinned()
    m = pinned.expr
    E.ensure("pinned-keeps-name-chunks", AND(pinned._name == name, EQ(tuple(map(tuple, pinned.chunks)), tuple(map(tuple, chunks)))))
    # ---- compute
    same_array(E, catalog.computed(E, w, m), prog.ref, label="compute", skolem="pc")
    # ---- persist: scheduler -> results -> rebuild
    dsk = catalog._layers(m)
    keys = _flat(coll.__dask_keys__())
    r = Runner(dsk)
    from symx.sarr import Shared, shared

    # what a scheduler hands back: blocks that own their memory and stay in the persisted graph
    results = {k: shared(r.get(k), owndata=True) for k in keys}
    rebuild, args = coll.__dask_postpersist__()
    for variant in ("own-keys", "renamed-outputs"):
        layer = dict(results) if variant == "own-keys" else {("scheduler-out",) + k[1:]: v for k, v in results.items()}
        p = rebuild(layer, *args)
        E.ensure(f"persist[{variant}]-keeps-name", AND(p._name == name, p.name == name))
        E.ensure(f"persist[{variant}]-keeps-chunks", EQ(tuple(map(tuple, p.chunks)), tuple(map(tuple, chunks))))
        E.ensure(f"persist[{variant}]-keeps-dtype", p.dtype == coll.dtype)
        E.ensure(f"persist[{variant}]-advertises-the-same-keys", _flat(p.__dask_keys__()) == keys)
        pm = catalog.stages(E, w, p.expr, {"materialized"})["materialized"]
        whole, _d, _r = catalog.run_tree(E, pm, chunks, f"persist[{variant}]", check_shapes=True, check_keys=True)
        same_array(E, whole, prog.ref, label=f"persist[{variant}]-values", skolem="pp" + variant[0])
        if variant == "own-keys":
            # compute() of the persisted collection hands back a private array, never the buffer the graph keeps
            got = catalog.computed(E, w, pm)
            E.ensure("persisted-compute-returns-a-private-array", not isinstance(got, Shared) and all(got is not v for v in results.values()))
            same_array(E, got, prog.ref, label="persisted-compute-values", skolem="pq")
            _follow_on(E, w, p, prog, "persisted")
    # ---- dask.optimize(x): dask walks x.expr generically (Expr.__dask_graph__: every node's _layer() on the *un-lowered*
    # tree, nodes without a _layer materialize themselves), schedules nothing, and rebuilds through __dask_postpersist__
    _dask_optimize(E, w, coll, prog, keys)
    # ---- optimize
    # x.optimize() must yield the same values (its block layout is the optimizer's business: the statement asks name / chunks /
    # dtype of the *persisted* and *dask-optimized* collections only)
    o = coll.optimize()
    E.ensure("optimize-keeps-dtype", o.dtype == coll.dtype)
    om = catalog.stages(E, w, o.expr, {"materialized"})["materialized"]
    whole, _d, _r = catalog.run_tree(E, om, o.chunks, "optimized", check_shapes=True)
    same_array(E, whole, prog.ref, label="optimize-values", skolem="po")
    _follow_on(E, w, o, prog, "optimized")


def _needs_unification(node):
    """does the raw tree hold an aligned Blockwise whose operands are not on a common layout yet (its _lower would rewrite it)?"""
    import dask_array._blockwise as BWm
    from .common import _walk

    for n in _walk(node):
        real = type(n).__dict__.get("_symx_real", type(n))
        if issubclass(real, BWm.Blockwise) and getattr(n, "align_arrays", False):
            try:
                if n._lower() is not None:
                    return True
            except Exception:
                return True
    return False


KNOWN_SITE = "dask.optimize:generic-walk-over-unaligned-Blockwise"


def _dask_optimize(E, w, coll, prog, keys):
    from dask._expr import Expr
    from symx.graph import Runner

    site = KNOWN_SITE if _needs_unification(prog.node) else None
    name, chunks = coll._name, coll.chunks
    try:
        graph = dict(Expr.__dask_graph__(prog.node))  # dask's own generic walk, on the collection's raw expression
    except (ValueError, KeyError) as ex:
        E.ensure("dask.optimize-builds-a-graph", False, site=site)
        return
    for k, v in prog.dsk.items():
        graph.setdefault(k, v)
    missing = [k for k in keys if k not in graph]
    E.ensure("dask.optimize-graph-defines-the-advertised-keys", not missing, site=site)
    if missing:
        return
    rebuild, args = coll.__dask_postpersist__()
    d = rebuild(graph, *args)
    E.ensure("dask.optimize-keeps-name-chunks-dtype", AND(d._name == name, EQ(tuple(map(tuple, d.chunks)), tuple(map(tuple, chunks))),
                                                          d.dtype == coll.dtype), site=site)
    try:
        dm = catalog.stages(E, w, d.expr, {"materialized"})["materialized"]
        r = Runner(catalog._layers(dm))
        blocks = {k[1:]: r.get(k) for k in keys}
    except (ValueError, KeyError, IndexError) as ex:
        E.ensure("dask.optimize-result-computes", False, site=site)
        return
    from symx.sarr import assemble

    nb = tuple(len(c) for c in chunks)
    ok_shapes = AND(*[AND(*[b.shape[a] == chunks[a][g[a]] for a in range(len(nb))]) for g, b in blocks.items()]) if nb else True
    E.ensure("dask.optimize-blocks-advertised-shape", ok_shapes, site=site)
    if ok_shapes is not True and not bool(ok_shapes):
        return
    whole = assemble(blocks, nb)
    old = E.tags.get("site")
    if site:
        E.tag("site", site)
    try:
        same_array(E, whole, prog.ref, label="dask.optimize-values", skolem="pd")
    finally:
        E.tag("site", old)


def _follow_on(E, w, coll, prog, tag):
    """an operation applied to `coll` gives what it gives on the original program: a slice x[a:] of the leading axis on the
    persisted collection, negation on the optimized one (one symbolic bound: two would square the number of paths)"""
    if tag == "optimized" or not prog.ref.ndim:
        neg = catalog.p_elemwise(w, operator.neg, catalog.Prog(coll.expr, prog.ref, prog.dsk))
        m = catalog.stages(E, w, neg.node, {"materialized"})["materialized"]
        whole, _d, _r = catalog.run_tree(E, m, neg.node.chunks, f"{tag}-neg")
        same_array(E, whole, neg.ref, label=f"{tag}-then-negate", skolem="pn" + tag[0])
    else:
        raw = catalog.raw_index(E, ((1, 0, None),), "f" + tag[0])
        sl = catalog.p_slice(w, catalog.Prog(coll.expr, prog.ref, prog.dsk), raw)
        m = catalog.stages(E, w, sl.node, {"materialized"})["materialized"]
        whole, _d, _r = catalog.run_tree(E, m, sl.node.chunks, f"{tag}-slice")
        same_array(E, whole, sl.ref, label=f"{tag}-then-slice", skolem="ps" + tag[0])


def instances(tier):
    names = set(_programs(tier))
    return catalog.make_instances(tier, "C05", _body, "Array._pinned/compute/persist rebuild/optimize + FromGraph",
                                  select=lambda n: n in names)
