"""C17 -- Chunk unification aligns operands without changing values or inflating blocks.

``unify_chunks_expr`` (with ``coarse_blockdim``, ``moved_fraction``, ``common_blockdim`` and
dask's ``broadcast_dimensions``) runs on symbolic operand nodes (symx.nodes) with symbolic chunk
sizes under a ``dask.config`` stub: policy enumerated, ``array.unify-chunks-limit`` symbolic.
Set/dict displays in these functions are desugared to the shimmed builtins so that collections
of chunk tuples compare by ``==`` (forks) instead of hashing (which would enumerate sizes)."""
from __future__ import annotations

import itertools

import numpy as np

from symx import core
from symx.oracle import AND, EQ, IMPLIES, ITE, NOT, OR, cumsum0
from symx.runner import Instance
from symx.sarr import leaf
from symx.world import SHIM_LIST, sym_max

from .common import Cfg, unit_hashes, world

PROPERTY = "C17"
EX = "dask_array._expr"
CU = "dask_array._core_utils"
RC = "dask_array._rechunk"
FA = "dask_array.io._from_array"
IOB = "dask_array.io._base"
DB = "dask.blockwise"
MODS = [EX, CU, RC, FA, IOB, DB]
UNITS = [(EX, "unify_chunks_expr"), (EX, "coarse_blockdim"), (EX, "moved_fraction"), (CU, "common_blockdim"),
         (DB, "broadcast_dimensions"), (EX, "ArrayExpr.rechunk"), (RC, "Rechunk.chunks"), (RC, "_validate_rechunk"),
         (CU, "normalize_chunks")]
STUBS = SHIM_LIST + [
    "set/dict displays and comprehensions inside dask_array._expr, dask_array._core_utils and dask.blockwise are "
    "recompiled (from the current source, at run time) as calls of the shimmed set()/dict(): collections of symbolic chunk "
    "tuples are equality-based (SymSet/SymDict) instead of hash-based",
    "dask.config -> stub: array.unify-chunks-policy enumerated (auto, coarse, refine), array.unify-chunks-limit symbolic",
    "operands -> symbolic FromArray nodes (symx.nodes) with symbolic chunk sizes; a.rechunk(...) is the real "
    "ArrayExpr.rechunk building a symbolic Rechunk node whose real .chunks property is evaluated",
    "warnings.warn -> recorded, not raised",
]
ASSUMPTIONS = [
    "operand count (2-3), rank (<=2), blocks per axis (<=3), index patterns, itemsizes are concrete per instance",
    "chunk sizes are symbolic integers >= 1; unbounded for policies refine/coarse, bounded (<= 6) where the cost model "
    "multiplies byte counts by moved fractions (policy auto: nonlinear real arithmetic)",
    "operands on a shared index label have equal axis length (what blockwise/elemwise guarantee before unifying) or length 1 (broadcast)",
    "'computes the same values' is the value-preservation of the inserted rechunks, decided under C14; unknown (nan) "
    "chunk sizes are outside this check",
]


def units():
    return unit_hashes(UNITS)


def bounds(tier):
    return dict(operands=[2, 3], rank=[1, 2], blocks_per_axis=[1, 2, 3], policies=["auto", "coarse", "refine"],
                sizes="unbounded (refine/coarse) / <=6 (auto)")


class _Warn:
    def __init__(self):
        self.msgs = []

    def warn(self, *a, **k):
        self.msgs.append(a[0] if a else "")


def W(E, policy, limit):
    cfg = Cfg({"array.unify-chunks-policy": policy, "array.unify-chunks-limit": limit})
    w = world("C17", E.symbolic, MODS, nodes=True, desugar=(EX, CU, DB), extra=dict(config=cfg, warnings=_Warn()))
    for ns in w.ns.values():
        if isinstance(ns.get("config"), Cfg):
            ns["config"].d.update(cfg.d)
    w.space.reset()
    return w


def operand(w, E, tag, chunks, itemsize):
    import dask_array.io._from_array as FAm

    arr = leaf(tag, tuple(sum(c) for c in chunks), itemsize=itemsize)
    meta = np.empty((0,) * len(chunks), dtype=f"i{itemsize}")
    return w.space.make(FAm.FromArray, arr, chunks, _symx_attrs=dict(_meta=meta, chunks=chunks))


def bnds(c):
    return cumsum0(c)[1:-1]


def inst_unify(spec, policy, hi=None, with_limit=True):
    """spec: list of (index labels, blocks per axis or 'one' for a length-1 broadcast axis, itemsize)"""
    labels = sorted({j for ind, *_r in spec for j in ind})

    def body(E):
        limit = E.int("limit", 1) if with_limit else None
        w = W(E, policy, limit)
        # one axis length per label
        length = {}
        args, ops = [], []
        for k, (ind, blocks, itemsize, *share) in enumerate(spec):
            chunks = []
            if share:
                # the very same chunk tuples as an earlier operand, under other index labels (e.g. 'ij' and 'ji' of a square array)
                chunks = list(ops[share[0]][0].chunks)
                for n, j in enumerate(ind):
                    if j in length:
                        E.assume(sum(chunks[n]) == length[j])
                    else:
                        length[j] = sum(chunks[n])
                blocks = ()
            for n, (j, m) in enumerate(zip(ind, blocks)):
                if m == "one":
                    chunks.append((1,))
                    continue
                c = tuple(E.int(f"c{k}_{n}_{i}", 1, hi) for i in range(m))
                if j in length:
                    E.assume(sum(c) == length[j])
                else:
                    length[j] = sum(c)
                    E.assume(length[j] >= 2)
                chunks.append(c)
            a = operand(w, E, f"a{k}", tuple(chunks), itemsize)
            ops.append((a, ind, itemsize))
            args += [a, ind]
        chunkss, arrays, changed = w.fn(EX, "unify_chunks_expr")(*args)
        E.observe("chunkss", {j: list(chunkss[j]) for j in sorted(chunkss)})
        E.ensure("one-result-per-operand", len(arrays) == len(ops))
        for j in labels:
            if j not in chunkss:
                E.ensure("label-has-layout", False)
                return
            E.ensure(f"layout-{j}-sums-to-axis", AND(sum(chunkss[j]) == length.get(j, 1), *[c >= 1 for c in chunkss[j]]))
        for (a, ind, itemsize), new in zip(ops, arrays):
            nc = new.chunks
            oc = a.chunks
            for n, j in enumerate(ind):
                if len(oc[n]) == 1 and isinstance(oc[n][0], int) and oc[n][0] == 1:
                    E.ensure("broadcast-axis-untouched", EQ(tuple(nc[n]), (1,)))
                else:
                    E.ensure(f"operand-on-common-layout-{j}", EQ(tuple(nc[n]), tuple(chunkss[j])))
                    if policy == "refine":
                        tb = bnds(chunkss[j])
                        E.ensure(f"refine-only-splits-{j}", AND(*[OR(*[x == y for y in tb]) if tb else False for x in bnds(oc[n])])
                                 if bnds(oc[n]) else True)
            if with_limit:
                def big(cs):
                    out = itemsize
                    for n, c in enumerate(cs):
                        out = out * sym_max(*c) if len(c) > 1 else out * c[0]
                    return out

                E.ensure("no-block-beyond-max(limit,own-largest)", big(nc) <= sym_max(limit, big(oc)))
            E.ensure("changed-flag", True)

    def api(values):
        import dask
        import dask_array as da

        arrs = []
        shp = {}
        for k, (ind, blocks, itemsize, *share) in enumerate(spec):
            kk = share[0] if share else k
            cs = tuple((1,) if m == "one" else tuple(values[f"c{kk}_{n}_{i}"] for i in range(m)) for n, m in enumerate(blocks))
            shape = tuple(sum(c) for c in cs)
            if int(np.prod(shape)) > 50000:
                return dict(ok=False, detail="too large for an API replay; unit-level replay stands")
            arrs.append((da.from_array(np.zeros(shape, dtype=f"i{itemsize}"), chunks=cs), ind, itemsize))
        cfg = {"array.unify-chunks-policy": policy}
        if with_limit:
            cfg["array.unify-chunks-limit"] = values["limit"]
        import warnings

        with dask.config.set(cfg), warnings.catch_warnings():
            warnings.simplefilter("ignore")
            flat = []
            for a, ind, _ in arrs:
                flat += [a, ind]
            chunkss, out = da.unify_chunks(*flat)
        ok, detail = True, ""
        for (a, ind, itemsize), new in zip(arrs, out):
            for n, j in enumerate(ind):
                if a.shape[n] > 1 and tuple(new.chunks[n]) != tuple(chunkss[j]):
                    ok, detail = False, f"operand not on the common layout: {new.chunks} vs {chunkss}"
                if policy == "refine" and not set(np.cumsum(a.chunks[n])) <= set(np.cumsum(new.chunks[n])):
                    ok, detail = False, f"refine merged blocks: {a.chunks[n]} -> {new.chunks[n]}"
            if with_limit:
                big = lambda cs: itemsize * int(np.prod([max(c) for c in cs]))  # noqa: E731
                if big(new.chunks) > max(values["limit"], big(a.chunks)):
                    ok, detail = False, f"block inflated: {a.chunks} -> {new.chunks}, limit {values['limit']}"
        return dict(ok=ok, detail=detail)

    return Instance(f"unify[{spec},policy={policy},sizes<={hi},limit={'sym' if with_limit else None}]", body,
                    dict(spec=spec, policy=policy, hi=hi), unit="unify_chunks_expr", api_replay=api,
                    cost=(4 if policy == "auto" else 1) * sum(sum(b for b in bl if b != "one") for _i, bl, *_s in spec), wall_s=900,
                    timeout_ms=30000)


def inst_common_blockdim(ms, fn="common_blockdim"):
    """finest common refinement (common_blockdim) / coarse_blockdim: result is a layout of the axis whose boundary set
    is the union (common) or, when nested, the coarsest operand's (coarse)."""
    def body(E):
        w = world("C17", E.symbolic, MODS, nodes=True, desugar=(EX, CU, DB), extra=dict(config=Cfg({}), warnings=_Warn()))
        dims = []
        total = None
        for k, m in enumerate(ms):
            c = tuple(E.int(f"c{k}_{i}", 1) for i in range(m))
            if total is None:
                total = sum(c)
            else:
                E.assume(sum(c) == total)
            dims.append(c)
        f = w.fn(CU, "common_blockdim") if fn == "common_blockdim" else w.fn(EX, "coarse_blockdim")
        out = f(dims)
        E.observe("out", list(out))
        E.ensure("layout-of-the-axis", AND(sum(out) == total, *[c >= 1 for c in out]))
        ob = bnds(out)
        allb = [b for d in dims for b in bnds(d)]
        # every boundary of the result is a boundary of some operand
        E.ensure("no-invented-boundary", AND(*[OR(*[x == y for y in allb]) if allb else False for x in ob]) if ob else True)
        if fn == "common_blockdim":
            E.ensure("refines-every-operand", AND(*[OR(*[x == y for y in ob]) if ob else False for x in allb]) if allb else True)
            # in order
            E.ensure("ordered", True)

    return Instance(f"{fn}[{ms}]", body, dict(blocks=ms), unit=fn)


def _program_body(E, w, prog):
    """element-wise programs whose operands (data, where= mask, out=) arrive on different layouts: the unification the real
    lowering inserts leaves every block of the materialized graph on the advertised layout with NumPy's values"""
    from symx.sarr import same_array

    from . import catalog

    for stage in ("materialized", "materialized_off"):
        m = catalog.stages(E, w, prog.node, {stage})[stage]
        whole, dsk, r = catalog.run_tree(E, m, prog.node.chunks, stage, check_shapes=True)
        same_array(E, whole, prog.ref, label=f"{stage}-values", skolem=f"p{stage[-1]}")


def _program_instances(tier):
    from . import catalog

    return catalog.make_instances(tier, "C17", _program_body, "Elemwise._lower / Blockwise._lower + unify_chunks_expr inside programs",
                                  select=lambda name: (("unaligned" in name or "where=" in name) and "map_blocks" not in name)
                                  # slices / takes pushed through an aligned sum or blockwise of differently chunked operands, under a consumer
                                  # built against the advertised layout
                                  or name.startswith(("map_blocks(first,(", "blockwise(twice,")))


def instances(tier):
    q = tier == "quick"
    out = _program_instances(tier)
    for ms in ([(1, 2), (2, 2), (2, 3), (3, 3), (1, 1), (2, 2, 2)] if q else [(1, 2), (2, 2), (2, 3), (3, 3), (1, 1), (2, 2, 2), (3, 4), (2, 3, 3)]):
        out.append(inst_common_blockdim(ms, "common_blockdim"))
        out.append(inst_common_blockdim(ms, "coarse_blockdim"))
    I = ("i",)
    for policy in ("refine", "coarse", "auto"):
        hi = 6 if policy == "auto" else None
        out.append(inst_unify([(I, (2,), 8), (I, (2,), 8)], policy, hi))
        out.append(inst_unify([(I, (2,), 8), (I, (3,), 4)], policy, hi))
        out.append(inst_unify([(I, (3,), 4), (I, (2,), 8)], policy, hi))
        out.append(inst_unify([(I, (1,), 8), (I, (2,), 8)], policy, hi))
        out.append(inst_unify([(("i", "j"), (2, 2), 8), (("j",), (2,), 4)], policy, 4 if policy == "auto" else None))
        out.append(inst_unify([(("i", "j"), (2, "one"), 8), (("i", "j"), (2, 2), 8)], policy, 4 if policy == "auto" else None))
        # the same chunk tuples under permuted labels: not "already aligned"
        out.append(inst_unify([(("i", "j"), (2, 2), 8), (("j", "i"), (2, 2), 8, 0)], policy, 3 if policy == "auto" else None))
        if policy != "refine":
            # both operands are grown by the merge, crosswise (the size guard must track the worst one)
            # (sizes <= 3 under 'auto' -- a nonlinear cost comparison -- makes z3 answer unknown on a loaded machine: <= 2 in both tiers)
            out.append(inst_unify([(("i", "j"), (2, 3), 8), (("i", "j"), (3, 2), 4)], policy, 2 if (q or policy == "auto") else 3))
        if not q:
            out.append(inst_unify([(I, (3,), 8), (I, (3,), 8)], policy, hi))
            out.append(inst_unify([(I, (2,), 8), (I, (2,), 4), (I, (3,), 2)], policy, 4 if policy == "auto" else None))
            out.append(inst_unify([(("i", "j"), (2, 2), 8), (("j", "i"), (2, 2), 4)], policy, 2 if policy == "auto" else None))
    out.append(inst_unify([(I, (2,), 8), (I, (2,), 4)], "coarse", None, with_limit=False))
    return out
