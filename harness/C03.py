"""C03 -- Advertised shape and chunks are what the graph produces (catalogue programs through the real _materialize,
symbolic sizes)."""
from __future__ import annotations

from symx.oracle import AND, EQ

from . import catalog
from .common import unit_hashes

PROPERTY = "C03"
UNITS = [(catalog.SB, "SliceSlicesIntegers.chunks"), (catalog.SB, "SliceSlicesIntegers._layer"), (catalog.BW, "Blockwise.chunks"),
         (catalog.BW, "Blockwise._layer"), (catalog.BW, "Elemwise._lower"), (catalog.TR, "Transpose._task"), (catalog.XP, "ExpandDims.chunks"),
         (catalog.XP, "ExpandDims._layer"), (catalog.BT, "BroadcastTo.chunks"), (catalog.BT, "BroadcastTo._layer"),
         (catalog.CC, "Concatenate.chunks"), (catalog.CC, "Concatenate._layer"), (catalog.SK, "Stack.chunks"), (catalog.SK, "Stack._layer"),
         (catalog.RC, "Rechunk.chunks"), (catalog.RC, "TasksRechunk._layer"), (catalog.RC, "_compute_rechunk"),
         (catalog.EX, "ArrayExpr.shape"), (catalog.EX, "ArrayExpr.rechunk"), (catalog.EX, "unify_chunks_expr"), (catalog.EX, "_chunks_match"),
         (catalog.MT, "_materialize"), (catalog.EX, "ChunksFreeze.lower_once"), (catalog.FA, "FromArray._layer"),
         (catalog.FA, "FromArray._accept_slice"), (catalog.FA, "FromArray._accept_rechunk")]
STUBS = catalog.STUBS
ASSUMPTIONS = [
    "programs are the enumerated catalogue (harness/catalog.py: sources, transpose, expand_dims, broadcast_to, basic slices, "
    "rechunk, element-wise with aligned / unaligned / broadcast operands, concatenate, stack, and two-level compositions); "
    "block counts and ranks are concrete, chunk sizes and index bounds symbolic and unbounded",
    "dtype, unknown (nan) chunk sizes and layers whose block shape is decided inside opaque kernels are outside this check",
]


def units():
    return unit_hashes(UNITS)


def bounds(tier):
    return dict(programs=sorted(catalog.programs(tier)), sizes="unbounded")


def _body(E, w, prog):
    adv = prog.node.chunks
    # the advertised shape is NumPy's
    E.ensure("rank", len(adv) == prog.ref.ndim)
    if len(adv) == prog.ref.ndim:
        E.ensure("shape-is-numpy-shape", AND(*[sum(c) == n for c, n in zip(adv, prog.ref.shape)]))
        E.ensure("chunks-nonnegative", AND(*[x >= 0 for c in adv for x in c]))
    # whatever layout optimization chose internally, the materialized graph produces blocks of exactly the advertised sizes
    for stage in ("materialized", "materialized_off"):
        m = catalog.stages(E, w, prog.node, {stage})[stage]
        E.ensure(f"{stage}-advertises-the-same-chunks", EQ(tuple(map(tuple, m.chunks)), tuple(map(tuple, adv))))
        E.ensure(f"{stage}-advertises-the-same-dtype", m.dtype == prog.node.dtype)
        catalog.run_tree(E, m, adv, stage, check_shapes=True)


def instances(tier):
    # the global count of a |step| >= 2 slice over >= 3 blocks is a sum of ceil-divisions on which z3 answers unknown (DESIGN C13);
    # that program's block sizes are still checked under C01/C02 block by block
    return catalog.make_instances(tier, "C03", _body, "chunks/_layer of every catalogue class through _materialize",
                                  select=lambda name: "[::-2]" not in name and "[a:b:2,::-1]" not in name)
