"""C19 -- Windowed and scan operations match their NumPy definitions.

Native sliding-window and moving-window reductions and the cumulative scans (sequential and
Blelloch) are decided on the *real layers and the real block kernels*: symbolic nodes of
SlidingWindowReduction / MovingWindowReduction / CumReduction / CumReductionBlelloch produce
their task graphs (``_block_plan``, ``_layer``); the graphs are executed on symbolic arrays by
the repository's own kernels (``_sliding_window_banded_reduce``, ``_sliding_window_block_total``,
``_moving_window_banded_reduce``, ``_cum_tail``, ``_prefixscan_*``) with running sums expressed
through an uninterpreted prefix function of the source, and compared at a skolem output
position with the NumPy definition (sum over the window / prefix).  Window, chunk sizes and
position are symbolic; the number of blocks is concrete."""
from __future__ import annotations

import itertools
import operator

import numpy as np
import z3

from symx import core
from symx.core import _z
from symx.graph import layer_keys_ok, run_blocks
from symx.oracle import AND, EQ, IMPLIES, ITE, NOT, OR, cumsum0
from symx.runner import Instance
from symx.sarr import NAN, SArr, companion_view, leaf, same_array, sarr_isnan, sarr_where
from symx.world import SHIM_LIST, SymNp

from .common import Cfg, collect_graph, unit_hashes, world

PROPERTY = "C19"
SW = "dask_array.reductions._sliding_window"
CM = "dask_array.reductions._cumulative"
EX = "dask_array._expr"
FA = "dask_array.io._from_array"
IOB = "dask_array.io._base"
CU = "dask_array._core_utils"
MODS = [SW, CM, EX, FA, IOB, CU]
OVM = "dask_array._overlap"
UNITS = [(OVM, "overlap"), (OVM, "boundaries"), (OVM, "periodic"), (OVM, "reflect"), (OVM, "_remove_overlap_boundaries"),
         (OVM, "_get_overlap_rechunked_chunks"), (OVM, "ensure_minimum_chunksize"), (OVM, "_overlap_internal_chunks"),
         (OVM, "OverlapInternal._layer"), (OVM, "MapOverlap._lower"), (OVM, "MapOverlap.chunks"), (OVM, "trim_internal"),
         (OVM, "_trim"), ("dask.layers", "ArrayOverlapLayer._construct_graph"), ("dask_array._chunk", "trim"),
         (SW, "supports_native_sliding_window"), (SW, "supports_native_moving_window"),
         (SW, "SlidingWindowReduction._block_plan"), (SW, "SlidingWindowReduction.chunks"), (SW, "SlidingWindowReduction._layer"),
         (SW, "MovingWindowReduction._block_plan"), (SW, "MovingWindowReduction._layer"),
         (SW, "_sliding_window_banded_reduce"), (SW, "_sliding_window_block_total"), (SW, "_moving_window_banded_reduce"),
         (SW, "_prepared_values"), (CM, "CumReduction._layer"), (CM, "CumReductionBlelloch._layer"), (CM, "_cum_tail"),
         (CM, "_prefixscan_first"), (CM, "_prefixscan_combine")]
STUBS = SHIM_LIST + [
    "expression classes -> symx.nodes (real _block_plan/_layer/chunks on cloned code)",
    "blocks -> symbolic arrays (symx.sarr); np.add.accumulate / np.add.reduce / np.cumsum / np.sum over a view of the "
    "source (or a concatenation of adjacent views) are expressed with an uninterpreted prefix function pfx(k) = sum of "
    "src[..u..] for u < k; the equality with NumPy's definition then holds for every source iff the pieces a kernel "
    "combines tile the window exactly -- which also settles min/max/prod/any/all, whose kernels differ only in the ufunc",
    "np.asarray / .astype on a symbolic array -> identity; np.divide(out=) -> element-wise exact division",
]
ASSUMPTIONS = [
    "number of blocks, rank (<=2), axis, reducer (sum, mean) concrete; window, chunk sizes, output position symbolic and unbounded",
    "sliding/moving nodes exist only under the real supports_native_* predicate (their only producer checks it): paths "
    "where it is false are skipped",
    "overlap / map_overlap: boundary kinds none, periodic, reflect with a symbolic depth <= axis length on axis 0 (rank <= 2); "
    "'nearest' and constant-value boundaries, asymmetric depths, several overlapped arrays are not decided",
    "float rounding is not modelled (exact reals); var, diff/gradient are not decided here",
]


def units():
    return unit_hashes(UNITS)


def bounds(tier):
    q = tier == "quick"
    return dict(blocks=[2, 3, 4] if q else [2, 3, 4, 5], blelloch_blocks=list(range(1, 10)) if q else list(range(1, 18)),
                sizes="unbounded", window="unbounded")


class _Np(SymNp):
    @staticmethod
    def asarray(x, *a, **k):
        return x if isinstance(x, SArr) else np.asarray(x, *a, **k)

    asanyarray = asarray

    @staticmethod
    def isnan(x):
        return sarr_isnan(x) if isinstance(x, SArr) else SymNp.isnan(x)

    @staticmethod
    def where(c, x, y):
        return sarr_where(c, x, y) if isinstance(c, SArr) else np.where(c, x, y)


def W(E):
    w = world("C19", E.symbolic, MODS, nodes=True, extra=dict(config=Cfg({})),
              extra_by_module={SW: dict(np=_Np()) if E.symbolic else dict(np=_NpC()), CM: dict(np=_Np()) if E.symbolic else dict(np=_NpC())})
    w.space.reset()
    return w


class _NpC:
    """concrete replays still run the kernels on symbolic-array objects (with concrete sizes)"""

    def __getattr__(self, k):
        if k in ("asarray", "asanyarray"):
            return _Np.asarray
        if k == "isnan":
            return _Np.isnan
        if k == "where":
            return _Np.where
        return getattr(np, k)


def source(w, E, blocks, lo=1):
    import dask_array.io._from_array as FAm

    chunks = tuple(tuple(E.int(f"c{a}_{i}", lo) for i in range(m)) for a, m in enumerate(blocks))
    arr = leaf("X", tuple(sum(c) for c in chunks))
    meta = np.empty((0,) * len(blocks))
    node = w.space.make(FAm.FromArray, arr, chunks, _symx_attrs=dict(_meta=meta, chunks=chunks, _name="x"))
    # the source's own layer: one block per grid cell, NumPy slicing of the leaf
    dsk = {}
    cs = [cumsum0(c) for c in chunks]
    for g in itertools.product(*[range(m) for m in blocks]):
        dsk[("x",) + g] = arr[tuple(slice(c[i], c[i + 1]) for c, i in zip(cs, g))]
    return node, arr, chunks, dsk


def window_sum(X, axis, W_, mean=False):
    """NumPy definition: sliding_window_view(X, W, axis).sum(-1)  (mean: / W)"""
    st = X.struct
    S = st[1].prefix(axis, "add")
    shape = list(X.shape)
    shape[axis] = shape[axis] - W_ + 1

    def at(idx):
        q = list(idx)
        lo, hi = list(q), list(q)
        hi[axis] = q[axis] + _z(W_)
        v = S(*hi) - S(*lo)
        return v / core.SymReal._r(W_) if mean else v

    return SArr(shape, at)


def trailing_sum(X, axis, W_):
    """bottleneck move_sum without NaNs and min_count<=valid: sum over [j-W+1, j] clipped at 0"""
    S = X.struct[1].prefix(axis, "add")

    def at(idx):
        q = list(idx)
        lo, hi = list(q), list(q)
        hi[axis] = q[axis] + 1
        lo[axis] = z3.If(q[axis] - _z(W_) + 1 > 0, q[axis] - _z(W_) + 1, z3.IntVal(0))
        return S(*hi) - S(*lo)

    return SArr(X.shape, at)


def inst_sliding(blocks, axis, reducer="sum", keepdims=False):
    def body(E):
        import dask_array.reductions._sliding_window as SWm

        w = W(E)
        x, X, chunks, dsk = source(w, E, blocks)
        win = E.int("window", 1)
        ok = w.fn(SW, "supports_native_sliding_window")(chunks[axis], win)
        E.observe("native", bool(ok))
        if not ok:
            return True
        window_axis = len(blocks)
        node = w.space.make(SWm.SlidingWindowReduction, x, win, axis, window_axis, keepdims, reducer, "f8")
        out_chunks = node.chunks
        E.observe("chunks", [list(c) for c in out_chunks])
        dsk.update(node._layer())
        layer_keys_ok(E, dsk, node._name, tuple(len(c) for c in out_chunks))
        whole, _r = run_blocks(E, dsk, node._name, out_chunks)
        ref = window_sum(X, axis, win, mean=(reducer == "mean"))
        if keepdims:
            ref = ref.expand_dims((window_axis,))
        same_array(E, whole, ref, label="window")

    def api(values):
        import dask_array as da
        from numpy.lib.stride_tricks import sliding_window_view as swv

        cs = tuple(tuple(values[f"c{a}_{i}"] for i in range(m)) for a, m in enumerate(blocks))
        shape = tuple(sum(c) for c in cs)
        win = values["window"]
        if int(np.prod(shape)) > 20000 or win > shape[axis]:
            return dict(ok=False, detail="outside API replay range; unit-level replay stands")
        data = np.arange(int(np.prod(shape)), dtype="f8").reshape(shape) ** 2 % 17
        d = da.from_array(data, chunks=cs)
        v = da.lib.stride_tricks.sliding_window_view(d, win, axis=axis) if hasattr(da, "lib") else da.sliding_window_view(d, win, axis=axis)
        got = getattr(v, reducer)(axis=-1, keepdims=keepdims).compute(scheduler="sync")
        want = getattr(swv(data, win, axis=axis), reducer)(axis=-1, keepdims=keepdims)
        return dict(ok=got.shape == want.shape and bool(np.allclose(got, want)), detail=f"chunks={cs} window={win}")

    nm = "x".join(map(str, blocks))
    return Instance(f"sliding_window[{reducer},blocks={nm},axis={axis},keepdims={keepdims}]", body,
                    dict(blocks=blocks, axis=axis, reducer=reducer, keepdims=keepdims),
                    unit="SlidingWindowReduction._block_plan/_layer + _sliding_window_banded_reduce", api_replay=api,
                    cost=3 ** blocks[axis], wall_s=900)


def inst_moving(blocks, axis, reducer="nansum", min_count_kind="none"):
    """bottleneck move_sum / move_mean semantics (NaN-skipping, NaN when fewer than min_count valid values)"""
    def body(E):
        import dask_array.reductions._sliding_window as SWm

        w = W(E)
        x, X, chunks, dsk = source(w, E, blocks)
        win = E.int("window", 1)
        ok = w.fn(SW, "supports_native_moving_window")(chunks[axis], win)
        E.observe("native", bool(ok))
        if not ok:
            return True
        min_count = None if min_count_kind == "none" else E.int("min_count", 1)
        node = w.space.make(SWm.MovingWindowReduction, x, win, min_count, axis, reducer, "f8")
        dsk.update(node._layer())
        layer_keys_ok(E, dsk, node._name, tuple(len(c) for c in node.chunks))
        whole, _r = run_blocks(E, dsk, node._name, node.chunks)
        # NumPy/bottleneck definition over the window [j-W+1, j] clipped at the array start
        clean, valid = companion_view(X, ("clean", 0)), companion_view(X, "valid")
        Sv, Sc = clean.struct[1].prefix(axis, "add"), valid.struct[1].prefix(axis, "add")
        limit = _z(win) if min_count is None else _z(min_count)

        def at(idx):
            lo, hi = list(idx), list(idx)
            hi[axis] = idx[axis] + 1
            lo[axis] = z3.If(idx[axis] - _z(win) + 1 > 0, idx[axis] - _z(win) + 1, z3.IntVal(0))
            total, count = Sv(*hi) - Sv(*lo), Sc(*hi) - Sc(*lo)
            val = total / count if reducer == "nanmean" else total
            return z3.If(count < z3.ToReal(limit), NAN, val)

        same_array(E, whole, SArr(X.shape, at), label="moving-window")

    nm = "x".join(map(str, blocks))
    return Instance(f"moving_window[{reducer},blocks={nm},axis={axis},min_count={min_count_kind}]", body,
                    dict(blocks=blocks, axis=axis, reducer=reducer, min_count=min_count_kind),
                    unit="MovingWindowReduction._block_plan/_layer + _moving_window_banded_reduce", cost=4 ** blocks[axis], wall_s=900)


# ------------------------------------------------------------------ overlap / map_overlap


def _ident(b):
    return b


def _nbr(b):
    """a window function that *uses* its halo on both sides: out[i] = b[i-1] + b[i] + b[i+1]; the two end positions, which
    lack a neighbour inside the block, double themselves (with a halo of depth >= 1 they are trimmed away).  Needs len >= 2."""
    return np.concatenate([b[:1] + b[:1], b[:-2] + b[1:-1] + b[2:], b[-1:] + b[-1:]], axis=0)


_nbr.__symx_kernel__ = True


def _nbr2(b):
    """the same with reach 2: out[i] = b[i-2] + b[i] + b[i+2]; two positions at either end double themselves (trimmed away
    under a halo of depth >= 2).  Needs len >= 4."""
    return np.concatenate([b[:2] + b[:2], b[:-4] + b[2:-2] + b[4:], b[-2:] + b[-2:]], axis=0)


_nbr2.__symx_kernel__ = True


def _nbr_id(b, block_id=None):
    """_nbr plus the number of the block it is applied to: a function whose result depends on where the block sits"""
    return _nbr(b) + block_id[0]


_nbr_id.__symx_kernel__ = True


def _ov_world(E):
    from . import catalog

    mods = catalog.MODS + ["dask_array._overlap", "dask_array._map_blocks", "dask_array._chunk", "dask.layers",
                           "dask_array.creation._ones_zeros", "dask_array.creation._repeat", "dask_array.stacking"]
    w = world("C19ov", E.symbolic, mods, nodes=True, desugar=(catalog.EX, catalog.CU, catalog.DB),
              extra=dict(config=Cfg({"array.rechunk.method": "tasks", "array.unify-chunks-policy": "coarse",
                                     "array.unify-chunks-limit": None, "array.slicing.split-large-chunks": None}),
                         warnings=catalog._Warn(), plan_rechunk=lambda old, new, *a, **k: [new]),
              clone_classes=[(catalog.CO, "Array")])
    w.space.reset()
    w.ns[catalog.MT]["_LOWER_CACHE"] = {}
    return w


def _padded(X, d, kind, value=None):
    """NumPy definition of the boundary kinds along axis 0 (np.pad modes wrap / symmetric / edge / constant)"""
    n = X.shape[0]
    if kind == "none":
        return X
    if kind == "periodic":
        return np.concatenate([X[n - d:], X, X[:d]], axis=0)
    if kind == "reflect":
        left = SArr((d,) + X.shape[1:], lambda idx: X._at((_z(d) - 1 - idx[0],) + tuple(idx[1:])))
        right = SArr((d,) + X.shape[1:], lambda idx: X._at((_z(n) - 1 - idx[0],) + tuple(idx[1:])))
        return np.concatenate([left, X, right], axis=0)
    if kind == "nearest":
        left = SArr((d,) + X.shape[1:], lambda idx: X._at((z3.IntVal(0),) + tuple(idx[1:])))
        right = SArr((d,) + X.shape[1:], lambda idx: X._at((_z(n) - 1,) + tuple(idx[1:])))
        return np.concatenate([left, X, right], axis=0)
    c = core.SymReal._r(value)
    pad = SArr((d,) + X.shape[1:], lambda idx: c)
    return np.concatenate([pad, X, pad], axis=0)


def inst_map_overlap(blocks, kind, what):
    """what: 'identity' -> map_overlap(identity, x, depth, boundary) == x ;
             'overlap'  -> overlap(x, depth, boundary) == per-block windows of the padded array"""
    rank = len(blocks)

    def body(E):
        from . import catalog
        import dask_array._overlap as OVm

        w = _ov_world(E)
        p = catalog.source(w, E, "x", blocks)
        X = p.ref
        d = E.int("depth", 1)
        n = X.shape[0]
        E.assume(d <= n)  # a depth larger than the array is refused (ValueError), see ensure_minimum_chunksize
        value = 7 if kind == "constant" else None
        bnd = value if kind == "constant" else kind
        depth = {a: (d if a == 0 else 0) for a in range(rank)}
        boundary = {a: (bnd if a == 0 else "none") for a in range(rank)}
        if what == "untrimmed_sliced":
            # ... and a slice of it selects the same elements as slicing the overlapped array
            node = w.space.make(OVm.MapOverlap, p.node, _ident, [depth], [boundary], False, True, {"dtype": "f8"},
                                _symx_attrs=dict(_meta=np.empty((0,) * rank)))
            a, b = E.int("a"), E.int("b")
            out = w.fn(catalog.NC, "new_collection")(node)[E.slice(a, b, None)]
            m = w.fn(catalog.MT, "_materialize")(out.expr, True)
            whole, r = run_blocks(E, catalog._layers(m), m._name, out.expr.chunks, label="untrimmed-sliced", kernels=dict(_ident=_ident))
            ref_node = w.fn("dask_array._overlap", "overlap")(w.fn(catalog.NC, "new_collection")(p.node), depth, boundary).expr
            m2 = w.fn(catalog.MT, "_materialize")(ref_node, True)
            ref, _r2 = run_blocks(E, catalog._layers(m2), m2._name, ref_node.chunks, label="overlap")
            same_array(E, whole, ref[E.slice(a, b, None)], label="slice-of-untrimmed")
            return
        if what == "untrimmed":
            # map_overlap(identity, ..., trim=False): what comes back is the overlapped array itself, halos included
            node = w.space.make(OVm.MapOverlap, p.node, _ident, [depth], [boundary], False, True, {"dtype": "f8"},
                                _symx_attrs=dict(_meta=np.empty((0,) * rank)))
            m = w.fn(catalog.MT, "_materialize")(node, True)
            dsk = catalog._layers(m)
            whole, r = run_blocks(E, dsk, m._name, node.chunks, label="map_overlap-untrimmed", kernels=dict(_ident=_ident))
            ref_node = w.fn("dask_array._overlap", "overlap")(w.fn(catalog.NC, "new_collection")(p.node), depth, boundary).expr
            E.ensure("advertises-the-overlapped-chunks", EQ(tuple(map(tuple, node.chunks)), tuple(map(tuple, ref_node.chunks))))
            m2 = w.fn(catalog.MT, "_materialize")(ref_node, True)
            ref, _r2 = run_blocks(E, catalog._layers(m2), m2._name, ref_node.chunks, label="overlap")
            same_array(E, whole, ref, label="untrimmed-is-the-overlapped-array")
            return
        if what == "identity":
            node = w.space.make(OVm.MapOverlap, p.node, _ident, [depth], [boundary], True, True, {"dtype": "f8"},
                                _symx_attrs=dict(_meta=np.empty((0,) * rank)))
            m = w.fn(catalog.MT, "_materialize")(node, True)
            dsk = catalog._layers(m)
            whole, r = run_blocks(E, dsk, m._name, node.chunks, label="map_overlap", kernels=dict(_ident=_ident))
            E.ensure("advertised-chunks-sum", AND(*[sum(c) == s for c, s in zip(node.chunks, X.shape)]))
            same_array(E, whole, X, label="identity")
            return
        coll = w.fn(catalog.NC, "new_collection")(p.node)
        out = w.fn("dask_array._overlap", "overlap")(coll, depth, boundary)
        node = out.expr
        m = w.fn(catalog.MT, "_materialize")(node, True)
        dsk = catalog._layers(m)
        whole, r = run_blocks(E, dsk, m._name, node.chunks, label="overlap")
        # definition, stated on the chunking the implementation settled on (every chunk must hold the depth)
        oc = node.chunks[0]
        k = len(oc)
        Xp = _padded(X, d, kind, value)
        if kind == "none":
            inner = [c - (d if i > 0 else 0) - (d if i < k - 1 else 0) for i, c in enumerate(oc)]
        else:
            inner = [c - 2 * d for c in oc]
        E.ensure("chunks-hold-the-depth", AND(*[c >= d for c in inner]))
        E.ensure("inner-chunks-sum-to-axis", sum(inner) == n)
        parts, s = [], 0
        for i, c in enumerate(inner):
            if kind == "none":
                lo = s - (d if i > 0 else 0)
                hi = s + c + (d if i < k - 1 else 0)
            else:
                lo, hi = s, s + c + 2 * d
            parts.append(Xp[lo:hi])
            s = s + c
        same_array(E, whole, np.concatenate(parts, axis=0), label="overlapped")

    def api(values):
        import dask_array as da

        cs = tuple(tuple(values[f"x{a}_{i}"] for i in range(m)) for a, m in enumerate(blocks))
        shape = tuple(sum(c) for c in cs)
        d = values["depth"]
        if int(np.prod(shape)) > 20000 or d > shape[0]:
            return dict(ok=False, detail="outside API replay range; unit-level replay stands")
        data = np.arange(int(np.prod(shape)), dtype="f8").reshape(shape)
        x = da.from_array(data, chunks=cs)
        bnd = 7 if kind == "constant" else kind
        depth = {a: (d if a == 0 else 0) for a in range(rank)}
        boundary = {a: (bnd if a == 0 else "none") for a in range(rank)}
        if what == "identity":
            got = da.map_overlap(lambda b: b, x, depth=depth, boundary=boundary, dtype="f8").compute(scheduler="sync")
            return dict(ok=bool(np.array_equal(got, data)), detail=f"chunks={cs} depth={d} kind={kind}")
        if what == "untrimmed_sliced":
            from dask_array._overlap import overlap as _ov

            a, b = values["a"], values["b"]
            try:
                y = da.map_overlap(lambda blk: blk, x, depth=depth, boundary=boundary, dtype="f8", trim=False)
                got = y[a:b].compute(scheduler="sync")
            except Exception as ex:
                return dict(ok=False, detail=f"map_overlap(trim=False)[{a}:{b}] raises {ex!r}"[:300])
            want = _ov(x, depth, boundary).compute(scheduler="sync")[a:b]
            return dict(ok=bool(np.array_equal(got, want)), detail=f"chunks={cs} depth={d} kind={kind} [{a}:{b}] got={got[:8].tolist()} want={want[:8].tolist()}")
        if what == "untrimmed":
            from dask_array._overlap import overlap as _ov

            try:
                y = da.map_overlap(lambda b: b, x, depth=depth, boundary=boundary, dtype="f8", trim=False)
                got = y.compute(scheduler="sync")
            except Exception as ex:
                return dict(ok=False, detail=f"map_overlap(trim=False) raises {ex!r}"[:300])
            want = _ov(x, depth, boundary).compute(scheduler="sync")
            return dict(ok=bool(got.shape == y.shape and np.array_equal(got, want)), detail=f"chunks={cs} depth={d} kind={kind} advertised "
                                                                                             f"{y.shape} computed {got.shape}")
        from dask_array._overlap import overlap as _ov

        y = _ov(x, depth, boundary)
        got = y.compute(scheduler="sync")
        mode = dict(periodic="wrap", reflect="symmetric", nearest="edge", constant="constant", none=None)[kind]
        if mode is None:
            padded = data
        else:
            padw = [(d, d)] + [(0, 0)] * (rank - 1)
            padded = np.pad(data, padw, mode=mode, **(dict(constant_values=7) if kind == "constant" else {}))
        oc = y.chunks[0]
        k = len(oc)
        inner = [c - ((d if i > 0 else 0) + (d if i < k - 1 else 0) if kind == "none" else 2 * d) for i, c in enumerate(oc)]
        parts, s = [], 0
        for i, c in enumerate(inner):
            lo, hi = ((s - (d if i > 0 else 0), s + c + (d if i < k - 1 else 0)) if kind == "none" else (s, s + c + 2 * d))
            parts.append(padded[lo:hi])
            s += c
        want = np.concatenate(parts, axis=0)
        return dict(ok=got.shape == want.shape and bool(np.array_equal(got, want)), detail=f"chunks={cs} depth={d} kind={kind}")

    nm = "x".join(map(str, blocks))
    return Instance(f"{what}[map_overlap,blocks={nm},boundary={kind}]", body, dict(blocks=blocks, boundary=kind, what=what),
                    unit="MapOverlap._lower / overlap / boundaries / OverlapInternal / trim_internal", api_replay=api,
                    cost=6 * max(blocks), wall_s=900)


def _sum_rows(b):
    """a block function that drops axis 0: column sums of the (haloed) block"""
    return b.sum(axis=0)


_sum_rows.__symx_kernel__ = True


def inst_map_overlap_drop(kind):
    """map_overlap(f, x, depth={1: d}, boundary={1: kind}, drop_axis=0) with f = column sums: the direct path (overlap ->
    map_blocks(drop_axis) -> trim), in which depth and boundary are re-indexed onto the surviving axes -- the halo added
    along axis 1 is trimmed off again, so the result is the column sums of x, on x's column chunks"""
    def body(E):
        from . import catalog

        w = _ov_world(E)
        p = catalog.source(w, E, "x", (1, 2))
        X = p.ref
        d = E.int("depth", 1)
        E.assume(d <= X.shape[1])
        coll = w.fn(catalog.NC, "new_collection")(p.node)
        out = w.fn("dask_array._overlap", "map_overlap")(_sum_rows, coll, depth={1: d}, boundary={1: kind}, drop_axis=0, dtype="f8",
                                                         meta=np.empty((0,)))
        ref = X.reduce_axis(0, "add")
        E.ensure("advertised-shape", EQ(tuple(out.shape), (X.shape[1],)))
        for stage in ("materialized", "materialized_off"):
            m = catalog.stages(E, w, out.expr, {stage})[stage]
            whole, r = run_blocks(E, catalog._layers(m), m._name, out.expr.chunks, label=stage, kernels=dict(_sum_rows=_sum_rows))
            same_array(E, whole, ref, label=f"{stage}-column-sums", skolem=f"p{stage[-1]}")

    def api(values):
        import dask_array as da

        rows, cs, d = values["x0_0"], (values["x1_0"], values["x1_1"]), values["depth"]
        if rows * sum(cs) > 20000:
            return dict(ok=False, detail="outside API replay range")
        A = np.arange(rows * sum(cs), dtype="f8").reshape(rows, sum(cs)) ** 2
        x = da.from_array(A, chunks=((rows,), cs))
        y = da.map_overlap(lambda b: b.sum(axis=0), x, depth={1: d}, boundary={1: kind}, drop_axis=0, dtype="f8", meta=np.empty((0,)))
        got = y.compute(scheduler="sync")
        return dict(ok=bool(got.shape == (sum(cs),) and np.array_equal(got, A.sum(axis=0))), detail=f"rows={rows} column chunks={cs} depth={d} "
                                                                                        f"boundary={{1: {kind!r}}}: shape {got.shape}")

    return Instance(f"map_overlap_drop_axis[boundary={kind}]", body, dict(boundary=kind), unit="map_overlap (_map_overlap_direct) + trim_internal",
                    api_replay=api, cost=8, wall_s=900)


def inst_cum(cls, blocks, axis):
    def body(E):
        import dask_array.reductions._cumulative as CMm

        w = W(E)
        x, X, chunks, dsk = source(w, E, blocks)
        if cls == "CumReduction":
            node = w.space.make(CMm.CumReduction, x, np.cumsum, operator.add, 0, axis, "f8",
                                _symx_attrs=dict(dtype=np.dtype("f8")))
        else:
            node = w.space.make(CMm.CumReductionBlelloch, x, np.cumsum, np.sum, operator.add, axis, "f8",
                                _symx_attrs=dict(dtype=np.dtype("f8")))
        dsk.update(node._layer())
        layer_keys_ok(E, {k: v for k, v in dsk.items() if len(k) == 1 + len(blocks) and all(isinstance(i, int) for i in k[1:])},
                      node._name, tuple(len(c) for c in chunks))
        whole, _r = run_blocks(E, dsk, node._name, node.chunks)
        same_array(E, whole, X.accumulate(axis), label="cumsum")

    def api(values):
        import dask_array as da

        cs = tuple(tuple(values[f"c{a}_{i}"] for i in range(m)) for a, m in enumerate(blocks))
        shape = tuple(sum(c) for c in cs)
        if int(np.prod(shape)) > 20000:
            return dict(ok=False, detail="outside API replay range; unit-level replay stands")
        data = (np.arange(int(np.prod(shape)), dtype="f8").reshape(shape) * 7) % 13
        d = da.from_array(data, chunks=cs)
        got = da.cumsum(d, axis=axis, method="sequential" if cls == "CumReduction" else "blelloch").compute(scheduler="sync")
        return dict(ok=bool(np.allclose(got, np.cumsum(data, axis=axis))), detail=f"chunks={cs}")

    nm = "x".join(map(str, blocks))
    return Instance(f"cumsum[{cls},blocks={nm},axis={axis}]", body, dict(cls=cls, blocks=blocks, axis=axis),
                    unit=f"{cls}._layer", api_replay=api, cost=blocks[axis])


def _program_body(E, w, prog):
    """the public functions end to end (view alone / under sum): rewritten and materialized by the repository's pipeline,
    executed on symbolic blocks, compared with the NumPy definition at a skolem output position"""
    from . import catalog

    m = catalog.stages(E, w, prog.node, {"materialized"})["materialized"]
    whole, dsk, r = catalog.run_tree(E, m, prog.node.chunks, "materialized")
    same_array(E, whole, prog.ref, label="window-values", skolem="pm")
    same_array(E, catalog.computed(E, w, m), prog.ref, label="computed-values", skolem="pc")


def _program_instances(tier):
    from . import catalog

    return catalog.make_instances(tier, "C19", _program_body, "sliding_window_view (public) + SlidingWindowView._simplify_up + "
                                  "MapOverlap/OverlapInternal or native kernels", select=lambda name: "sliding_window_view" in name or name.startswith(("gradient(", "cumsum(", "diff(")))


def inst_map_overlap_sliced(blocks, kind, depth=None, start=None, hi=None, within_first=False, chunks=None, by_block=False):
    """map_overlap(f, x, depth, boundary)[a:b] with a window function that reads its right neighbour: the slice the
    optimizer pushes through MapOverlap (halo-expanded window of the input; refused where a periodic halo would wrap)
    selects the same elements as slicing the full result"""
    def body(E):
        from . import catalog
        import dask_array._overlap as OVm

        w = _ov_world(E)
        p = catalog.source(w, E, "x", blocks, hi=hi, chunks=None if chunks is None else [tuple(chunks)])
        X = p.ref
        n = X.shape[0]
        d = E.int("depth", 1) if depth is None else depth
        E.assume(d <= n)
        E.assume(n >= 2)
        reach = 2 if (kind == "periodic" and depth == 2) else 1  # the stencil reads as far as the halo is deep
        node = w.space.make(OVm.MapOverlap, p.node, _nbr_id if by_block else _nbr2 if reach == 2 else _nbr, [{0: d}], [{0: kind}], True, True, {"dtype": "f8"},
                            _symx_attrs=dict(_meta=np.empty((0,))))
        a, b = (E.int("a") if start is None else start), E.int("b")
        if chunks is not None:
            # concrete chunking: the stop is enumerated by forking (every value decided separately), so that the culling gate of
            # the pushdown is a concrete decision on every path, as it is in a real run
            E.assume(AND(b >= 0, b <= n))
            b = int(b)
        if within_first:
            # the window lies in the first block, so the pushdown's "culls a whole block" gate opens
            E.assume(AND(b >= 0, b <= p.node.chunks[0][0]))
        coll = w.fn(catalog.NC, "new_collection")(node)
        out = coll[E.slice(a, b, None)]
        Xp = _padded(X, d, kind)
        if kind == "none":
            full = SArr((n,), lambda idx: z3.If(z3.Or(idx[0] == 0, idx[0] == _z(n) - 1), 2 * X._at((idx[0],)),
                                                X._at((idx[0] - 1,)) + X._at((idx[0],)) + X._at((idx[0] + 1,))))
        else:
            full = SArr((n,), lambda idx: Xp._at((idx[0] + _z(d) - reach,)) + Xp._at((idx[0] + _z(d),)) + Xp._at((idx[0] + _z(d) + reach,)))
        if by_block:
            # the function also adds the number of the block (of the array map_overlap was called on) an element lies in
            bounds, acc = [], 0
            for c in chunks[:-1]:
                acc += c
                bounds.append(acc)
            plain = full
            full = SArr((n,), lambda idx: plain._at(idx) + z3.Sum([z3.If(idx[0] >= e, z3.RealVal(1), z3.RealVal(0)) for e in bounds]))
        ref = full[E.slice(a, b, None)]
        for stage in ("materialized", "materialized_off"):
            m = catalog.stages(E, w, out.expr, {stage})[stage]
            dsk = catalog._layers(m)
            whole, r = run_blocks(E, dsk, m._name, out.expr.chunks, label=stage)
            same_array(E, whole, ref, label=f"{stage}-sliced-window", skolem=f"p{stage[-1]}")

    def api(values):
        import dask_array as da

        cs = (tuple(values[f"x0_{i}"] for i in range(blocks[0])) if chunks is None else tuple(chunks),)
        n, d, a, b = sum(cs[0]), values.get("depth", depth), values.get("a", start), values["b"]
        if n > 5000 or d > n:
            return dict(ok=False, detail="outside API replay range; unit-level replay stands")
        data = np.arange(n, dtype="f8") ** 2
        x = da.from_array(data, chunks=cs)

        reach = 2 if (kind == "periodic" and depth == 2) else 1

        def f(blk, block_id=None):
            if by_block:
                return np.concatenate([blk[:1] + blk[:1], blk[:-2] + blk[1:-1] + blk[2:], blk[-1:] + blk[-1:]]) + block_id[0]
            if reach == 2:
                return np.concatenate([blk[:2] + blk[:2], blk[:-4] + blk[2:-2] + blk[4:], blk[-2:] + blk[-2:]])
            return np.concatenate([blk[:1] + blk[:1], blk[:-2] + blk[1:-1] + blk[2:], blk[-1:] + blk[-1:]])

        y = da.map_overlap(f, x, depth={0: d}, boundary={0: kind}, dtype="f8")
        full = y.compute(scheduler="sync")
        got = y[a:b].compute(scheduler="sync")
        return dict(ok=bool(np.array_equal(got, full[a:b])), detail=f"chunks={cs} depth={d} kind={kind} [{a}:{b}] got={got[:8].tolist()} "
                                                                    f"want={full[a:b][:8].tolist()}")

    nm = "x".join(map(str, blocks))
    if by_block:
        nm += ",function reads block_id"
    return Instance(f"map_overlap_sliced[blocks={nm},boundary={kind},depth={'symbolic' if depth is None else depth},"
                    f"start={'symbolic' if start is None else start},sizes<={hi}{',window in block 0' if within_first else ''}{',chunks=' + str(tuple(chunks)) if chunks else ''}]", body,
                    dict(blocks=blocks, boundary=kind, depth=depth, start=start, max_size=hi), unit="MapOverlap._accept_slice + _lower", api_replay=api, cost=30,
                    wall_s=900)


def instances(tier):
    q = tier == "quick"
    out = _program_instances(tier)
    out.append(inst_map_overlap_drop("periodic"))
    out.append(inst_map_overlap_drop("none"))
    # (reflect: the pushed window's mirrored halo makes z3 run past 900 s -- not included, stated)
    for kind in ("periodic", "none"):
        out.append(inst_map_overlap_sliced((1,), kind, depth=2))
        out.append(inst_map_overlap_sliced((2,), kind, depth=2, start=1))
        # whole blocks are culled, so the push fires: start inside the left halo / interior, every stop
        out.append(inst_map_overlap_sliced((3,), kind, depth=2, start=1, chunks=(5, 5, 5)))
        out.append(inst_map_overlap_sliced((3,), kind, depth=2, start=6, chunks=(5, 5, 5)))
        if kind == "none":
            out.append(inst_map_overlap_sliced((3,), kind, depth=1, start=4, chunks=(3, 3, 3), by_block=True))
        if not q:
            out.append(inst_map_overlap_sliced((2,), kind))
    for m in ([2, 3, 4] if q else [2, 3, 4, 5]):
        out.append(inst_sliding((m,), 0, "sum"))
    out.append(inst_sliding((3,), 0, "mean"))
    out.append(inst_sliding((3,), 0, "sum", keepdims=True))
    out.append(inst_sliding((2, 2), 0, "sum"))
    out.append(inst_sliding((2, 3), 1, "sum"))
    for m in ([2, 3] if q else [2, 3, 4]):
        out.append(inst_moving((m,), 0, "nansum"))
    out.append(inst_moving((3,), 0, "nansum", "sym"))
    out.append(inst_moving((2,), 0, "nanmean"))
    out.append(inst_moving((2, 2), 1, "nansum"))
    # boundary='constant' builds its padding through creation wrappers defined as closures (not clonable) and 'nearest'
    # through repeat() (np.linspace(...).round on the chunk boundaries): not decided
    for kind in ("none", "periodic", "reflect"):
        out.append(inst_map_overlap((2,), kind, "identity"))
        out.append(inst_map_overlap((2,), kind, "overlap"))
    out.append(inst_map_overlap((3,), "none", "identity"))
    for kind in ("none", "periodic", "reflect"):
        out.append(inst_map_overlap((2,), kind, "untrimmed"))
    for kind in ("none", "reflect"):
        out.append(inst_map_overlap((2,), kind, "untrimmed_sliced"))
    out.append(inst_map_overlap((2, 2), "periodic", "identity"))
    if not q:
        for kind in ("none", "periodic", "reflect"):
            out.append(inst_map_overlap((3,), kind, "overlap"))
        out.append(inst_map_overlap((2, 2), "none", "overlap"))
    for m in ([1, 2, 3, 4] if q else [1, 2, 3, 4, 5, 6]):
        out.append(inst_cum("CumReduction", (m,), 0))
    out.append(inst_cum("CumReduction", (2, 2), 0))
    out.append(inst_cum("CumReduction", (2, 3), 1))
    for m in (list(range(1, 10)) if q else list(range(1, 18))):
        out.append(inst_cum("CumReductionBlelloch", (m,), 0))
    out.append(inst_cum("CumReductionBlelloch", (2, 3), 1))
    return out
