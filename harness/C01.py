"""C01 -- Array programs compute what NumPy computes (enumerated programs, symbolic sizes and data).

Each catalogue program is built from the repository's own expression classes over sources with symbolic chunk sizes and
run through the repository's own ``_materialize`` (simplify -> lower -> fuse -> pin root keys, the single place where an
expression becomes a task graph); the real ``_layer`` graphs are executed on symbolic arrays whose elements are an
uninterpreted function of the source position; the assembled result equals the NumPy meaning of the same program at a
skolem index -- for every chunk-size assignment, every index bound and every data."""
from __future__ import annotations

from symx.oracle import AND
from symx.sarr import same_array

from . import catalog
from .common import unit_hashes
from .C03 import UNITS as _U

PROPERTY = "C01"
UNITS = _U + [(catalog.MT, "_materialize"), (catalog.MT, "_lower"), (catalog.EX, "ArrayExpr.optimize"),
              (catalog.BW, "optimize_blockwise_fusion_array"), (catalog.BW, "FusedBlockwise._task"),
              (catalog.BW, "FusedBlockwise._compute_block_ids")]
STUBS = catalog.STUBS + ["optimizer driver -> the repository's own _materialize / dask's Expr.simplify / lower_once running on "
                         "symbolic nodes (names are structural digests, so fixpoint detection by name works); _LOWER_CACHE "
                         "-> fresh per path"]
ASSUMPTIONS = [
    "the program space is the enumerated catalogue (harness/catalog.py), not all compositions; within a program the "
    "chunk sizes, slice bounds, integer indices and the data are universally quantified; block counts, ranks, steps are concrete",
    "values are exact reals: ufuncs other than +,-,neg are uninterpreted functions; float rounding and dtype are not modelled",
    "reductions, scans, windows, setitem, store, from_array reads are decided under C18, C19, C11, C25, C24; shuffle/"
    "take, reshape, map_blocks, linalg, random are outside",
]


def units():
    return unit_hashes(UNITS)


def bounds(tier):
    return dict(programs=sorted(catalog.programs(tier)), sizes="unbounded")


def _body(E, w, prog):
    for stage in ("materialized", "materialized_off"):
        m = catalog.stages(E, w, prog.node, {stage})[stage]
        whole, dsk, r = catalog.run_tree(E, m, prog.node.chunks, stage)
        same_array(E, whole, prog.ref, label=f"{stage}-values", skolem=f"p{stage[-1]}")
        if stage == "materialized":
            # the value compute() returns: finalize over the root's own key nesting
            same_array(E, catalog.computed(E, w, m), prog.ref, label="computed-values", skolem="pc")


def instances(tier):
    return catalog.make_instances(tier, "C01", _body, "_materialize (simplify/lower/fuse/pin) + layers + block kernels")
