"""C27 -- Transfer estimates are well-formed.

``moved_fraction`` and ``_rechunk_stage_transfer`` are executed symbolically as functions;
the ``transfer_bytes`` of every expression class that overrides it with arithmetic is the
class's own (cloned) property evaluated on a symbolic node (symx.nodes) whose inputs have
symbolic chunk sizes."""
from __future__ import annotations

import math

import numpy as np

from symx import core
from symx.oracle import AND, EQ, IMPLIES, ITE, NOT, OR, cumsum0
from symx.runner import Instance
from symx.sarr import leaf
from symx.world import SHIM_LIST

from .common import Cfg, unit_hashes, world

PROPERTY = "C27"
EX = "dask_array._expr"
RC = "dask_array._rechunk"
BW = "dask_array._blockwise"
SB = "dask_array.slicing._basic"
SU = "dask_array.slicing._utils"
OV = "dask_array._overlap"
RD = "dask_array.reductions._reduction"
CM = "dask_array.reductions._cumulative"
SH = "dask_array._shuffle"
CC = "dask_array.stacking._concatenate"
SK = "dask_array.stacking._stack"
FA = "dask_array.io._from_array"
IOB = "dask_array.io._base"
CU = "dask_array._core_utils"
MODS = [EX, RC, BW, SB, SU, OV, RD, CM, SH, CC, SK, FA, IOB, CU]
UNITS = [(EX, "moved_fraction"), (RC, "_rechunk_stage_transfer"), (EX, "ArrayExpr.transfer_bytes"),
         (BW, "Blockwise.transfer_bytes"), (RC, "Rechunk.transfer_bytes"), (RC, "P2PRechunk.transfer_bytes"),
         (SB, "SliceSlicesIntegers.transfer_bytes"), (OV, "OverlapInternal.transfer_bytes"),
         (RD, "PartialReduce.transfer_bytes"), (CM, "CumReduction.transfer_bytes"),
         (CM, "CumReductionBlelloch.transfer_bytes"), (SH, "Shuffle.transfer_bytes"), (CC, "Concatenate.transfer_bytes"),
         (SK, "Stack.transfer_bytes"), (EX, "ChunksOverride.transfer_bytes"), (EX, "ArrayExpr.nbytes"),
         (EX, "ArrayExpr.size"), (EX, "ArrayExpr.shape"), (SU, "_slice_1d")]
STUBS = SHIM_LIST + [
    "expression classes -> symx.nodes (real properties on cloned code; constructors/tokenize bypassed)",
    "plan_rechunk inside Rechunk.transfer_bytes -> an arbitrary symbolic two-stage plan [mid, target] with the same "
    "per-axis sums (over-approximates every plan C15 allows: each stage estimate must be well-formed)",
    "Shuffle.indexer -> harness-chosen lists of symbolic in-range indices (grouping by the real Shuffle._new_chunks)",
]
ASSUMPTIONS = [
    "block counts, rank (<=2), split_every, axis, itemsize are concrete per instance",
    "one symbolic axis: chunk sizes unbounded (>=1, or >=0 where stated); two axes: sizes bounded 1..6 (products are nonlinear)",
    "floats are exact rationals; NaN chunk sizes are enumerated concretely (estimate must be (nan, nan))",
    "summing estimates over whole optimized trees (Array.transfer_bytes) is outside this check",
]


def units():
    return unit_hashes(UNITS)


def bounds(tier):
    return dict(blocks_per_axis=[1, 2, 3] if tier == "quick" else [1, 2, 3, 4], two_axis_sizes=[1, 6])


def W(E):
    w = world("C27", E.symbolic, MODS, nodes=True, extra=dict(config=Cfg({"array.rechunk.method": "tasks"})))
    w.space.reset()
    return w


def wellformed(E, tb, label="estimate"):
    lo, hi = tb[0], tb[1]
    E.observe(label, [lo, hi])
    E.ensure(f"{label}-min-nonneg", lo >= 0)
    E.ensure(f"{label}-min-le-max", lo <= hi)


def chunks1(E, tag, m, lo=1, hi=None):
    return tuple(E.int(f"{tag}{i}", lo, hi) for i in range(m))


def src(w, E, tag, blocks, itemsize=8, lo=1, hi=None):
    import dask_array.io._from_array as FAm

    chunks = tuple(chunks1(E, f"{tag}{a}_", m, lo, hi) for a, m in enumerate(blocks))
    arr = leaf(tag, tuple(sum(c) for c in chunks), itemsize=itemsize)
    meta = np.empty((0,) * len(blocks), dtype=f"i{itemsize}")
    return w.space.make(FAm.FromArray, arr, chunks, _symx_attrs=dict(_meta=meta, chunks=chunks)), chunks


# ------------------------------------------------------------------ functions


def inst_moved_fraction(ms, md, lo=1):
    def body(E):
        w = W(E)
        s, d = chunks1(E, "s", ms, lo), chunks1(E, "d", md, lo)
        E.assume(sum(s) == sum(d))
        f = w.fn(EX, "moved_fraction")(s, d)
        E.observe("fraction", f)
        E.ensure("in-[0,1]", AND(f >= 0, f <= 1))
        if ms == md:
            E.ensure("identical-is-zero", IMPLIES(AND(*[a == b for a, b in zip(s, d)]), f == 0))
        # pure split: every boundary of s is a boundary of d
        bs, bd = cumsum0(s)[1:-1], cumsum0(d)[1:-1]
        refines = AND(*[OR(*[x == y for y in bd]) if bd else False for x in bs]) if bs else True
        E.ensure("pure-split-is-zero", IMPLIES(refines, f == 0))

    return Instance(f"moved_fraction[src={ms},dst={md},min={lo}]", body, dict(src=ms, dst=md, min=lo), unit="moved_fraction")


def inst_moved_fraction_mismatch():
    def body(E):
        w = W(E)
        s, d = chunks1(E, "s", 2, 0), chunks1(E, "d", 2, 0)
        f = w.fn(EX, "moved_fraction")(s, d)
        E.observe("fraction", f)
        return AND(f >= 0, f <= 1)

    return Instance("moved_fraction[arbitrary totals, zero-width allowed]", body, {}, unit="moved_fraction")


def inst_stage(blocks_old, blocks_new, itemsize=8, hi=None):
    rank = len(blocks_old)

    def body(E):
        w = W(E)
        old = tuple(chunks1(E, f"o{a}_", m, 1, hi) for a, m in enumerate(blocks_old))
        new = tuple(chunks1(E, f"n{a}_", m, 1, hi) for a, m in enumerate(blocks_new))
        for a in range(rank):
            E.assume(sum(old[a]) == sum(new[a]))
        tb = w.fn(RC, "_rechunk_stage_transfer")(old, new, itemsize)
        wellformed(E, tb, "stage")
        if blocks_old == blocks_new:
            same = AND(*[x == y for o, n in zip(old, new) for x, y in zip(o, n)])
            E.ensure("same-chunks-move-nothing", IMPLIES(same, AND(tb[0] == 0, tb[1] == 0)))

    return Instance(f"_rechunk_stage_transfer[{blocks_old}->{blocks_new},sizes<={hi}]", body,
                    dict(old=blocks_old, new=blocks_new, hi=hi), unit="_rechunk_stage_transfer", cost=2 if rank > 1 else 1)


def inst_stage_nan():
    def body(E):
        w = W(E)
        c = E.int("c", 1)
        tb = w.fn(RC, "_rechunk_stage_transfer")(((c, float("nan")),), ((float("nan"),),), 8)
        E.observe("c", c)
        return isinstance(tb[0], float) and math.isnan(tb[0]) and math.isnan(tb[1])

    return Instance("_rechunk_stage_transfer[nan]", body, {}, unit="_rechunk_stage_transfer")


# ------------------------------------------------------------------ node classes


def inst_default(blocks_dep, out_blocks, hi=None):
    """ArrayExpr.transfer_bytes (default formula) on a class that does not override it."""
    def body(E):
        import dask_array._expr as EXm

        w = W(E)
        dep, _ = src(w, E, "x", blocks_dep, hi=hi)
        out_chunks = tuple(chunks1(E, f"y{a}_", m, 1, hi) for a, m in enumerate(out_blocks))
        node = w.space.make(EXm.ChunksFreeze, dep, out_chunks, _symx_attrs=dict(chunks=out_chunks))
        tb = w.method(EXm.ArrayExpr, "transfer_bytes")(node)
        wellformed(E, tb)

    return Instance(f"ArrayExpr.transfer_bytes[dep={blocks_dep},out={out_blocks},sizes<={hi}]", body,
                    dict(dep=blocks_dep, out=out_blocks), unit="ArrayExpr.transfer_bytes")


def inst_blockwise(arg_specs, out_ind, out_blocks, hi=None):
    """arg_specs: list of (blocks per axis, index tuple)"""
    def body(E):
        import dask_array._blockwise as BWm

        w = W(E)
        args = []
        for k, (blocks, ind) in enumerate(arg_specs):
            a, _ = src(w, E, f"a{k}", blocks, hi=hi)
            args += [a, ind]
        node = w.space.make(BWm.Blockwise, None, out_ind, _symx_attrs=dict(numblocks=tuple(out_blocks)))
        node.operands.extend(args)
        tb = node.transfer_bytes
        wellformed(E, tb)

    return Instance(f"Blockwise.transfer_bytes[args={arg_specs},out={out_ind}:{out_blocks}]", body,
                    dict(args=arg_specs, out_ind=out_ind, out_blocks=out_blocks), unit="Blockwise.transfer_bytes")


def inst_rechunk(blocks_old, blocks_mid, blocks_new, hi=None, cls="Rechunk"):
    rank = len(blocks_old)

    def body(E):
        import dask_array._rechunk as RCm

        w = W(E)
        x, old = src(w, E, "x", blocks_old, hi=hi)
        new = tuple(chunks1(E, f"n{a}_", m, 1, hi) for a, m in enumerate(blocks_new))
        mid = tuple(chunks1(E, f"m{a}_", m, 1, hi) for a, m in enumerate(blocks_mid))
        for a in range(rank):
            E.assume(sum(old[a]) == sum(new[a]))
            E.assume(sum(old[a]) == sum(mid[a]))
        w.ns[RC]["plan_rechunk"] = lambda o, n, *a, **k: [mid, n]
        node = w.space.make(getattr(RCm, cls), x, new, _symx_attrs=dict(chunks=new))
        tb = node.transfer_bytes
        wellformed(E, tb)
        if blocks_old == blocks_new == blocks_mid:
            same = AND(*[p == q for o, n in zip(old, new) for p, q in zip(o, n)], *[p == q for o, n in zip(old, mid) for p, q in zip(o, n)])
            E.ensure("rechunk-to-same-chunks-moves-nothing", IMPLIES(same, AND(tb[0] == 0, tb[1] == 0)))

    return Instance(f"{cls}.transfer_bytes[{blocks_old}->{blocks_mid}->{blocks_new},sizes<={hi}]", body,
                    dict(old=blocks_old, mid=blocks_mid, new=blocks_new), unit=f"{cls}.transfer_bytes", cost=2)


def inst_rechunk_lowered(blocks_old, blocks_new, method, balance, hi=None):
    """Rechunk nodes as lowering produces them (the only producer of TasksRechunk / P2PRechunk):
    the real Rechunk._lower runs on a node whose input cannot absorb the rechunk."""
    rank = len(blocks_old)

    def body(E):
        import dask_array._expr as EXm
        import dask_array._rechunk as RCm

        w = W(E)
        x0, old = src(w, E, "x", blocks_old, hi=hi)
        x = w.space.make(EXm.ChunksOverride, x0, old, _symx_attrs=dict(_meta=x0._meta))
        new = tuple(chunks1(E, f"n{a}_", m, 1, hi) for a, m in enumerate(blocks_new))
        for a in range(rank):
            E.assume(sum(old[a]) == sum(new[a]))
        w.ns[RC]["plan_rechunk"] = lambda o, n, *a, **k: [n]
        node = w.space.make(RCm.Rechunk, x, new, None, None, balance, method, _symx_attrs=dict(chunks=new))
        low = node._lower()
        E.observe("lowered-to", type(low).__dict__.get("_symx_real", type(low)).__name__ if low is not None else None)
        if low is None:
            return False
        if low is x:
            # no node is left: nothing moves; only legitimate when the chunks are the same
            return AND(*[p == q for o, n in zip(old, new) for p, q in zip(o, n)]) if blocks_old == blocks_new else False
        tb = low.transfer_bytes
        wellformed(E, tb)
        if blocks_old == blocks_new:
            same = AND(*[p == q for o, n in zip(old, new) for p, q in zip(o, n)])
            E.ensure("rechunk-to-same-chunks-moves-nothing", IMPLIES(same, AND(tb[0] == 0, tb[1] == 0)))

    return Instance(f"Rechunk._lower+transfer_bytes[{blocks_old}->{blocks_new},method={method},balance={balance},sizes<={hi}]",
                    body, dict(old=blocks_old, new=blocks_new, method=method, balance=balance),
                    unit="Rechunk._lower + TasksRechunk/P2PRechunk.transfer_bytes", cost=2)


def inst_slice(blocks, spec, allow, hi=None):
    def body(E):
        import dask_array.slicing._basic as SBm

        w = W(E)
        x, chunks = src(w, E, "x", blocks, hi=hi)
        raw = tuple(E.slice(E.int(f"s{k}a") if s[0] else None, E.int(f"s{k}b") if s[1] else None, s[2]) if s != "i"
                    else E.int(f"i{k}") for k, s in enumerate(spec))
        try:
            idx = w.fn(SU, "normalize_index")(raw, x.shape)
        except IndexError:
            return True
        node = w.space.make(SBm.SliceSlicesIntegers, x, idx, allow)
        tb = node.transfer_bytes
        wellformed(E, tb)
        E.ensure("min-is-zero", tb[0] == 0)

    return Instance(f"SliceSlicesIntegers.transfer_bytes[blocks={blocks},idx={spec},alias_opt={allow}]", body,
                    dict(blocks=blocks, index=spec, allow=allow), unit="SliceSlicesIntegers.transfer_bytes")


def inst_overlap(blocks, depth_kind, hi=None):
    def body(E):
        import dask_array._overlap as OVm

        w = W(E)
        x, chunks = src(w, E, "x", blocks, hi=hi)
        axes = {}
        for a in range(len(blocks)):
            if depth_kind == "int":
                axes[a] = E.int(f"d{a}", 0)
            elif depth_kind == "tuple":
                axes[a] = (E.int(f"d{a}b", 0), E.int(f"d{a}a", 0))
        node = w.space.make(OVm.OverlapInternal, x, axes, _symx_attrs=dict(chunks=chunks))
        tb = node.transfer_bytes
        wellformed(E, tb)

    return Instance(f"OverlapInternal.transfer_bytes[blocks={blocks},depth={depth_kind},sizes<={hi}]", body,
                    dict(blocks=blocks, depth=depth_kind), unit="OverlapInternal.transfer_bytes")


def inst_partial_reduce(blocks, split_every, hi=None):
    def body(E):
        import dask_array.reductions._reduction as RDm

        w = W(E)
        x, chunks = src(w, E, "x", blocks, hi=hi)
        node = w.space.make(RDm.PartialReduce, x, np.sum, dict(split_every), True)
        tb = node.transfer_bytes
        wellformed(E, tb)

    return Instance(f"PartialReduce.transfer_bytes[blocks={blocks},split_every={split_every},sizes<={hi}]", body,
                    dict(blocks=blocks, split_every=split_every), unit="PartialReduce.transfer_bytes")


def inst_cum(cls, blocks, axis, lo=1, hi=None):
    def body(E):
        import dask_array.reductions._cumulative as CMm

        w = W(E)
        x, chunks = src(w, E, "x", blocks, lo=lo, hi=hi)
        C = getattr(CMm, cls)
        ops = {p: None for p in C._parameters}
        ops.update(array=x, axis=axis)
        node = w.space.make(C, *[ops[p] for p in C._parameters], _symx_attrs=dict(chunks=chunks, dtype=np.dtype("i8")))
        tb = node.transfer_bytes
        wellformed(E, tb)

    return Instance(f"{cls}.transfer_bytes[blocks={blocks},axis={axis},min={lo},sizes<={hi}]", body,
                    dict(blocks=blocks, axis=axis, lo=lo), unit=f"{cls}.transfer_bytes")


def inst_shuffle(blocks, groups):
    """groups: lengths of the output chunks' index lists (index values symbolic, in range)"""
    def body(E):
        import dask_array._shuffle as SHm

        w = W(E)
        x, chunks = src(w, E, "x", (blocks,))
        n = sum(chunks[0])
        new_chunks = []
        for g, ln in enumerate(groups):
            idx = []
            for j in range(ln):
                v = E.int(f"i{g}_{j}", 0)
                E.assume(v < n)
                idx.append(v)
            new_chunks.append(idx)
        # the output grouping comes from the real Shuffle._new_chunks (it splits groups larger than the
        # largest input chunk), not from the harness
        node = w.space.make(SHm.Shuffle, x, new_chunks, 0, "shuffle")
        tb = node.transfer_bytes
        wellformed(E, tb)

    return Instance(f"Shuffle.transfer_bytes[blocks={blocks},groups={groups}]", body, dict(blocks=blocks, groups=groups),
                    unit="Shuffle.transfer_bytes", cost=3)


def inst_alias(kind):
    def body(E):
        import dask_array._expr as EXm
        import dask_array.stacking._concatenate as CCm
        import dask_array.stacking._stack as SKm

        w = W(E)
        x, chunks = src(w, E, "x", (2,))
        y, _ = src(w, E, "y", (2,))
        if kind == "concatenate":
            node = w.space.make(CCm.Concatenate, None, 0, None)
            node.operands.extend([x, y])
            tb = node.transfer_bytes
        elif kind == "stack":
            node = w.space.make(SKm.Stack, None, 0, None)
            node.operands.extend([x, y])
            tb = node.transfer_bytes
            wellformed(E, tb)
            return True
        elif kind == "chunks_override":
            node = w.space.make(EXm.ChunksOverride, x, chunks)
            tb = node.transfer_bytes
        elif kind == "chunks_freeze":
            node = w.space.make(EXm.ChunksFreeze, x, chunks)
            tb = node.transfer_bytes
        else:
            node = w.space.make(EXm.RootAlias, x, "root")
            tb = node.transfer_bytes
        wellformed(E, tb)
        return AND(tb[0] == 0, tb[1] == 0)

    return Instance(f"alias.transfer_bytes[{kind}]", body, dict(kind=kind), unit=f"{kind}.transfer_bytes")


def instances(tier):
    q = tier == "quick"
    out = []
    ms = [1, 2, 3] if q else [1, 2, 3, 4]
    for a in ms:
        for b in ms:
            out.append(inst_moved_fraction(a, b))
    out.append(inst_moved_fraction(2, 3, lo=0))
    out.append(inst_moved_fraction(3, 2, lo=0))
    out.append(inst_moved_fraction_mismatch())
    for a in ms:
        for b in ms:
            out.append(inst_stage((a,), (b,)))
    out.append(inst_stage((2, 2), (2, 2), hi=3))  # with sizes <= 4 z3 answers unknown on the NRA obligation
    out.append(inst_stage((2, 1), (1, 2), hi=4))
    out.append(inst_stage_nan())
    out.append(inst_default((2,), (2,)))
    out.append(inst_default((1,), (3,)))
    out.append(inst_default((3,), (1,)))
    out.append(inst_default((2, 2), (2, 1), hi=4))
    out.append(inst_blockwise([((2,), ("i",)), ((2,), ("i",))], ("i",), (2,)))
    out.append(inst_blockwise([((1,), ("i",)), ((3,), ("i",))], ("i",), (3,)))
    out.append(inst_blockwise([((2, 2), ("i", "j"))], ("i",), (2,), hi=4))
    out.append(inst_blockwise([((2,), ("j",))], ("i", "j"), (3, 2)))
    out.append(inst_blockwise([((2, 2), ("i", "k")), ((2, 1), ("k", "j"))], ("i", "j"), (2, 3), hi=3))
    out.append(inst_rechunk((2,), (2,), (2,)))
    out.append(inst_rechunk((2,), (3,), (1,)))
    out.append(inst_rechunk((3,), (1,), (2,)))
    for method in ("tasks", "p2p", None):
        for balance in (False, True):
            out.append(inst_rechunk_lowered((2,), (2,), method, balance))
            out.append(inst_rechunk_lowered((2,), (3,), method, balance))
    out.append(inst_rechunk_lowered((2, 1), (2, 1), "p2p", True, hi=4))
    out.append(inst_rechunk((2, 1), (1, 1), (1, 2), hi=3))
    for st in (None, 2, -1):
        for m in (1, 2, 3):
            out.append(inst_slice((m,), ((1, 1, st),), True))
    out.append(inst_slice((2,), ((1, 1, None),), False))
    out.append(inst_slice((2,), ("i",), True))
    out.append(inst_slice((2, 2), ((1, 1, None), (1, 0, None)), True, hi=4))
    out.append(inst_slice((2, 2), ("i", (1, 1, None)), True, hi=4))
    for dk in ("int", "tuple"):
        out.append(inst_overlap((1,), dk))
        out.append(inst_overlap((3,), dk))
        out.append(inst_overlap((2, 2), dk, hi=4))
    out.append(inst_partial_reduce((3,), {0: 2}))
    out.append(inst_partial_reduce((4,), {0: 2}))
    out.append(inst_partial_reduce((3,), {0: 4}))
    out.append(inst_partial_reduce((2, 3), {1: 2}, hi=4))
    out.append(inst_partial_reduce((2, 2), {0: 2, 1: 2}, hi=4))
    for cls in ("CumReduction", "CumReductionBlelloch"):
        out.append(inst_cum(cls, (1,), 0))
        out.append(inst_cum(cls, (3,), 0))
        out.append(inst_cum(cls, (2,), 0, lo=0))
        out.append(inst_cum(cls, (2, 2), 1, hi=4))
    out.append(inst_shuffle(2, (1,)))
    out.append(inst_shuffle(2, (2,)))
    out.append(inst_shuffle(3, (2, 1)))
    out.append(inst_shuffle(3, (3,)))
    if not q:
        out.append(inst_shuffle(2, (2, 2)))
        out.append(inst_shuffle(2, (4,)))
    for k in ("concatenate", "stack", "chunks_override", "chunks_freeze", "root_alias"):
        out.append(inst_alias(k))
    return out
