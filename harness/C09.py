"""C09 -- Results do not depend on materialization history or planner configuration.

Configuration half: programs whose graph shape depends on a configuration key are materialized by the repository's own
``_materialize`` under a ``dask.config`` stub whose values are enumerated / symbolic -- array.optimize-graph (on/off),
array.unify-chunks-policy (auto/coarse/refine) x a symbolic array.unify-chunks-limit, array.rechunk.threshold /
array.chunk-size (symbolic) x degree-limit inside the real ``plan_rechunk`` (multi-stage plans executed stage by stage), and
``split_every`` for reduction trees -- and the executed graph equals the NumPy meaning for every value of the key.
History half: two programs sharing a subtree are materialized one after the other through one shared ``_LOWER_CACHE`` (the
name-keyed lowering cache), in both orders; the second still computes its NumPy meaning."""
from __future__ import annotations

import operator

import numpy as np

from symx.oracle import AND
from symx.runner import Instance
from symx.sarr import same_array

from . import catalog
from .catalog import Prog, p_elemwise, p_rechunk, p_slice, p_transpose, raw_index, source
from .common import Cfg, unit_hashes
from .C02 import UNITS as _U

PROPERTY = "C09"
R = catalog.RC
UNITS = _U + [(R, "plan_rechunk"), (R, "find_merge_rechunk"), (R, "find_split_rechunk"), (R, "_bound_degree"),
              (R, "_choose_rechunk_method"), (catalog.RD, "_normalize_split_every"), (catalog.RD, "_build_tree_reduce_expr")]
STUBS = catalog.STUBS + ["dask.config -> stub with enumerated / symbolic values of the listed keys",
                         "plan_rechunk is the repository's own in the rechunk instances (not stubbed)"]
ASSUMPTIONS = [
    "programs are enumerated; block counts concrete; chunk sizes symbolic (bounded <= 4..6 where the planner multiplies sizes "
    "or takes logarithms: the plan depends on them through nonlinear arithmetic)",
    "history: one process-global name-keyed cache (_LOWER_CACHE) shared by two materializations in both orders; arbitrary "
    "interleavings of many collections, the singleton registry and weak-reference eviction are outside (object identity)",
    "method='p2p' needs distributed and is outside",
]


def units():
    return unit_hashes(UNITS)


def bounds(tier):
    return dict(policies=["auto", "coarse", "refine"], limit="symbolic >= 1", threshold="symbolic 1..4", chunk_size="symbolic 1..32",
                degree_limit=[2, 100], optimize_graph=[True, False])


def _cfg(w):
    for ns in w.ns.values():
        if isinstance(ns.get("config"), Cfg):
            return ns["config"]


def _check(E, w, prog, label, optimize=True):
    m = w.fn(catalog.MT, "_materialize")(prog.node, optimize)
    whole, dsk, r = catalog.run_tree(E, m, prog.node.chunks, label, check_shapes=True)
    same_array(E, whole, prog.ref, label=f"{label}-values", skolem=f"p_{label}_")


def inst_unify(policy, hi):
    def body(E):
        w = catalog.W(E)
        limit = E.int("limit", 1)
        _cfg(w).d.update({"array.unify-chunks-policy": policy, "array.unify-chunks-limit": limit})
        x = source(w, E, "x", (2,), hi=hi)
        y = source(w, E, "y", (3,), shape=x.node.shape, hi=hi)
        prog = p_elemwise(w, operator.add, x, y)
        for opt in (True, False):
            _check(E, w, prog, f"opt{int(opt)}", opt)

    return Instance(f"unify[policy={policy},limit=sym,sizes<={hi}]", body, dict(policy=policy, hi=hi), unit="_materialize + unify_chunks_expr",
                    cost=5 if policy == "auto" else 2, wall_s=900)


def inst_policy_change(built, computed):
    """a block-count-sensitive consumer (one element per block, as a reduction tree or a boolean mask is planned per block) over
    x + y with differently chunked operands, *built* under one unify-chunks policy and *materialized* under another: same
    values -- the lowering must not unify the operands a second time under the policy then in force"""
    def body(E):
        w = catalog.W(E)
        _cfg(w).d.update({"array.unify-chunks-policy": built, "array.unify-chunks-limit": None})
        # (a concrete nested pair of layouts, on which the policies disagree: coarse keeps (6, 6), refine cuts to (2,) * 6; the
        # data are symbolic)
        x = source(w, E, "x", (2,), chunks=[(6, 6)])
        y = source(w, E, "y", (6,), chunks=[(2,) * 6])
        add = p_elemwise(w, operator.add, x, y)
        prog = catalog.p_map_first(w, E, add)  # (one element per block of the layout advertised now)
        adv = tuple(map(tuple, add.node.chunks))
        E.observe("built-chunks", [list(c) for c in adv])
        _cfg(w).d.update({"array.unify-chunks-policy": computed})
        for opt in (True, False):
            _check(E, w, prog, f"opt{int(opt)}", opt)

    def api(values):
        import dask
        import dask_array as da

        cx, cy = (6, 6), (2,) * 6
        X, Y = np.arange(sum(cx), dtype="f8"), np.ones(sum(cx))
        with dask.config.set({"array.unify-chunks-policy": built}):
            z = da.from_array(X, chunks=(cx,)) + da.from_array(Y, chunks=(cy,))
            f = z.map_blocks(lambda b: b[:1], chunks=((1,) * len(z.chunks[0]),), dtype=float)
            bnd = np.cumsum((0,) + z.chunks[0])[:-1]
        with dask.config.set({"array.unify-chunks-policy": computed}):
            try:
                got = f.compute(scheduler="sync")
            except ValueError as ex:
                return dict(ok=False, detail=f"built under {built}, computed under {computed}: ValueError {str(ex)[:90]}")
        return dict(ok=bool(np.array_equal(got, (X + Y)[bnd])), detail=f"built under {built}, computed under {computed}: {got.tolist()}")

    return Instance(f"policy_change[built={built},computed={computed}]", body, dict(built=built, computed=computed),
                    unit="Blockwise.chunks / Elemwise._lower + unify_chunks_expr + Reduction lowering", api_replay=api, cost=4, wall_s=900)


def inst_rechunk(blocks_old, blocks_new, degree, hi):
    def body(E):
        w = catalog.W(E)
        thr = E.int("threshold", 1, 4)
        lim = E.int("chunk_size", 1, 32)
        _cfg(w).d.update({"array.rechunk.threshold": thr, "array.chunk-size": lim, "array.rechunk.degree-limit": degree})
        # the real planner for this instance
        for name in (R,):
            w.ns[name]["plan_rechunk"] = w.clone_of(R, "plan_rechunk")
        try:
            x = source(w, E, "x", blocks_old, hi=hi)
            tgt = tuple(tuple(E.int(f"r{a}_{i}", 1, hi) for i in range(m)) for a, m in enumerate(blocks_new))
            for a in range(len(blocks_old)):
                E.assume(sum(tgt[a]) == sum(x.node.chunks[a]))
            # keep the rechunk as a task rechunk: a Stack neither absorbs a rechunk nor lets it through
            y = catalog.p_stack(w, [x, x], 0)
            prog = p_rechunk(w, y, ((1, 1),) + tgt)
            m = w.fn(catalog.MT, "_materialize")(prog.node, True)
            E.observe("has-task-rechunk", any(type(n).__dict__.get("_symx_real", type(n)).__name__ == "TasksRechunk" for n in m.walk()))
            whole, dsk, r = catalog.run_tree(E, m, prog.node.chunks, "planned", check_shapes=True)
            same_array(E, whole, prog.ref, label="planned-values", skolem="pp")
        finally:
            w.ns[R]["plan_rechunk"] = w.extra["plan_rechunk"]

    nm = "x".join(map(str, blocks_old)) + "->" + "x".join(map(str, blocks_new))
    return Instance(f"rechunk-plan[{nm},degree={degree},sizes<={hi}]", body, dict(old=blocks_old, new=blocks_new, degree=degree, hi=hi),
                    unit="_materialize + plan_rechunk + _compute_rechunk", cost=20, wall_s=1200, timeout_ms=60000)


def inst_history(order):
    def body(E):
        w = catalog.W(E)
        cache = w.ns[catalog.MT]["_LOWER_CACHE"]
        x = source(w, E, "x", (2,))
        y = source(w, E, "y", (2,), shape=x.node.shape)
        shared = p_elemwise(w, operator.add, x, y)           # unaligned: lowering inserts a rechunk
        p1 = p_elemwise(w, operator.neg, shared)
        p2 = p_slice(w, shared, raw_index(E, ((1, 0, None),)))
        progs = [p1, p2] if order == 0 else [p2, p1]
        for k, p in enumerate(progs):
            _check(E, w, p, f"step{k}")
        E.ensure("one-shared-cache", w.ns[catalog.MT]["_LOWER_CACHE"] is cache)
        E.observe("cache-entries", len(cache))

    return Instance(f"history[order={order}]", body, dict(order=order), unit="_materialize + _LOWER_CACHE", cost=8, wall_s=900)


def inst_split_every(m, se_default):
    """sum tree built by the real _build_tree_reduce_expr with split_every=None (taken from config 'split_every')"""
    from .C18 import inst_tree

    base = inst_tree((m,), 0, None, False)

    def body(E):
        from . import C18

        w = C18.W(E)
        _cfg(w).d["split_every"] = se_default
        return base.body(E)

    return Instance(f"split_every[config={se_default},blocks={m}]", body, dict(blocks=m, split_every=se_default),
                    unit="_normalize_split_every + _build_tree_reduce_expr + PartialReduce")


def instances(tier):
    q = tier == "quick"
    out = []
    for pol in ("coarse", "refine"):
        out.append(inst_unify(pol, None))
    out.append(inst_unify("auto", 5))
    out.append(inst_policy_change("coarse", "refine"))
    out.append(inst_policy_change("refine", "coarse"))
    out.append(inst_rechunk((2,), (3,), 100, 4))
    out.append(inst_rechunk((3,), (2,), 2, 4))
    if not q:
        out.append(inst_rechunk((4,), (3,), 2, 4))
        out.append(inst_rechunk((3,), (4,), 2, 5))
    out.append(inst_history(0))
    out.append(inst_history(1))
    for se in (2, 3, 4, 16):
        for m in ((3, 5) if q else (3, 5, 9)):
            out.append(inst_split_every(m, se))
    # per-axis split_every dicts (tree depth) and intermediate combine levels of arg reductions: same instances as C18
    from . import C18

    out.append(C18.inst_tree_structure((2, 8), (0, 1), {0: 4, 1: 2}))
    out.append(C18.inst_tree_structure((2, 8), (0, 1), {0: 2, 1: 4}))
    out.append(C18.inst_tree((4,), 0, {0: 1}, False))
    out.append(C18.inst_arg_nd(((2,), (1, 1, 1)), "argmin", two_level=True))
    out.append(C18.inst_arg_nd(((2,), (1, 1, 1)), "argmax", two_level=True))
    # materialization history of a collection that is then assigned into (same instance as C11), and rewrites whose result
    # must not depend on array.optimize-graph (catalogue programs materialized with the setting on and off)
    from . import C11, catalog

    out.append(C11.inst_mask_assign_history())

    def body(E, w, prog):
        from symx.sarr import same_array

        vals = {}
        for stage in ("materialized", "materialized_off"):
            m = catalog.stages(E, w, prog.node, {stage})[stage]
            whole, dsk, r = catalog.run_tree(E, m, prog.node.chunks, stage)
            vals[stage] = whole
            same_array(E, whole, prog.ref, label=f"{stage}-values", skolem=f"p{stage[-1]}")
        same_array(E, vals["materialized"], vals["materialized_off"], label="optimize-graph-on-equals-off", skolem="pq")

    keep = ("(x2x2+w[one block])[:,[1,0,0]]", "(x2+y2)[[1,2,0]]", "transpose(x2x2)[[1,0]]", "x2+y3(unaligned)", "rechunk(x2+y2)")
    out += catalog.make_instances(tier, "C09", body, "optimizer rewrites under array.optimize-graph on/off", select=lambda n: n in keep)
    return out
