"""C12 -- Indexing follows NumPy semantics (basic indices: ints, slices, None, Ellipsis).

The real pipeline normalize_index -> slice_array (-> slice_with_newaxes -> slice_wrap_lists ->
slice_slices_and_integers) -> SliceSlicesIntegers.chunks / ._layer is run on a fake input
node with symbolic chunk sizes; the emitted task graph is compared, block-locally, with the
NumPy meaning of the index (symx.oracle views)."""
from __future__ import annotations

import itertools

import numpy as np

from symx.oracle import (AND, EQ, IFF, IMPLIES, ITE, NOT, OR, cumsum0, int_in_range, kth, locate, sel_len, selected,
                         triple, view_identity, view_index)
from symx.runner import Instance
from symx.world import SHIM_LIST

from .common import Fake, Rec, rec, unit_hashes, world

PROPERTY = "C12"
U = "dask_array.slicing._utils"
B = "dask_array.slicing._basic"
MODS = [U, B]
UNITS = [(U, "normalize_index"), (U, "replace_ellipsis"), (U, "check_index"), (U, "sanitize_index"),
         (U, "normalize_slice"), (U, "posify_index"), (U, "_slice_1d"), (U, "new_blockdim"), (B, "slice_array"),
         (B, "slice_with_newaxes"), (B, "slice_wrap_lists"), (B, "slice_slices_and_integers"),
         (B, "SliceSlicesIntegers.chunks"), (B, "SliceSlicesIntegers._layer")]
STUBS = SHIM_LIST + [
    "SliceSlicesIntegers / ExpandDims constructors -> recorders (arguments captured)",
    "Task / Alias / TaskRef -> recorders",
    "input array -> duck-typed node with symbolic .chunks/.shape",
]
ASSUMPTIONS = [
    "index element kinds, None-patterns, slice steps, rank (<=2) and block counts are concrete per instance",
    "chunk sizes >= 1, slice bounds and integer indices are unbounded integers",
    "catalogue index programs (harness/catalog.py names containing '['): the index, and chains of two indices, applied to "
    "sources/transposes/elemwise/concatenate/stack/arange through Array.__getitem__ and the optimizer, concrete integer "
    "lists included, are decided end to end",
    ".blocks[...] on catalogue programs; integer dask-array indices: the two block kernels on index chunks of 1-3 unbounded "
    "symbolic entries over 2-3 blocks of symbolic size (values, and IndexError outside [-n, n)), and -- combined with other "
    "indices -- optimizer survival and advertised shape only",
    "boolean masks, unknown chunk sizes, dask index arrays of several chunks end to end: NOT decided; .vindex: bounds and "
    "point placement for the instances listed",
]


def units():
    return unit_hashes(UNITS)


def bounds(tier):
    q = tier == "quick"
    return dict(rank=[1, 2], blocks_per_axis=[1, 2, 3] if q else [1, 2, 3, 4], steps=[1, 2, 3, -1, -2, -3] if q else
                [1, 2, 3, 4, -1, -2, -3, -4], ints="unbounded")


class SSI(Rec):
    pass


def W(E):
    return world("C12", E.symbolic, MODS, extra=dict(
        Task=rec("task"), Alias=rec("alias"), TaskRef=lambda k: k, SliceSlicesIntegers=lambda *a: SSI("ssi", *a),
        ExpandDims=rec("expand")))


def mk(E, name, present):
    return E.int(name) if present else None


def _raw_index(E, spec):
    out = []
    for k, s in enumerate(spec):
        if s == "i":
            out.append(E.int(f"i{k}"))
        elif s == "n":
            out.append(None)
        elif s == "e":
            out.append(Ellipsis)
        else:
            out.append(E.slice(mk(E, f"s{k}a", s[0]), mk(E, f"s{k}b", s[1]), s[2]))
    return tuple(out)


def _spec_step(s):
    return (s[2] or 1) if isinstance(s, tuple) else None


def inst_index(blocks, spec):
    """blocks: tuple of block counts per input axis; spec: raw index spec"""
    rank = len(blocks)

    def body(E):
        import dask_array.slicing._basic as Bm

        w = W(E)
        chunks = tuple(tuple(E.int(f"c{a}_{i}", 1) for i in range(m)) for a, m in enumerate(blocks))
        shape = tuple(sum(c) for c in chunks)
        raw = _raw_index(E, spec)
        # reference: which raw elements address which input axis (Ellipsis expanded by hand)
        n_real = sum(1 for s in spec if s not in ("n", "e"))
        expanded = []
        for s, r in zip(spec, raw):
            if s == "e":
                expanded += [slice(None)] * (rank - n_real)
            else:
                expanded.append(r)
        expanded += [slice(None)] * (rank - sum(1 for r in expanded if r is not None))
        ref_axes = [r for r in expanded if r is not None]
        ok_ints = AND(*[int_in_range(r, n) for r, n in zip(ref_axes, shape) if not hasattr(r, "start")])
        try:
            idx = w.fn(U, "normalize_index")(raw, shape)
        except IndexError:
            E.ensure("IndexError-only-when-out-of-range", NOT(ok_ints))
            return
        E.ensure("out-of-range-int-raises", ok_ints)
        E.observe("idx", idx)
        x = Fake(chunks=chunks, shape=shape, _name="x", ndim=rank)
        x.expr = x
        tree = w.fn(B, "slice_array")(x, idx)
        # unwrap
        where_none = None
        if isinstance(tree, Rec) and tree.kind == "expand":
            where_none = tuple(tree.a[1])
            tree = tree.a[0]
        if tree is x:
            node_index = tuple(slice(None) for _ in range(rank))
            layer = None
        else:
            if not isinstance(tree, SSI):
                raise AssertionError(f"unexpected tree {tree!r}")
            arr, node_index, allow = tree.a
            node = Fake(array=x, index=node_index, _name="y", allow_getitem_optimization=allow)
            out_chunks = w.method(Bm.SliceSlicesIntegers, "chunks")(node)
            node.chunks = out_chunks
            layer = w.method(Bm.SliceSlicesIntegers, "_layer")(node)
        # ---- newaxis placement vs NumPy
        ref_view = view_index(view_identity(shape), expanded)
        ref_new = tuple(j for j, o in enumerate(ref_view.out) if o[0] == "new")
        kept = [r for r in ref_axes if hasattr(r, "start")]
        got_new = ()
        if where_none is not None:
            # ExpandDims(x, axes): axes are positions at which size-1 axes are inserted one after another
            pos = list(range(len(kept)))
            cur = [("ax", k) for k in pos]
            for a in where_none:
                cur.insert(a, ("new", None))
            got_new = tuple(j for j, o in enumerate(cur) if o[0] == "new")
        E.ensure("newaxis-positions", got_new == ref_new)
        if len(node_index) != rank:
            E.ensure("index-rank", False)
            return
        # the index stored on the node must mean the same as the raw one, axis by axis
        if layer is None:
            for r, n in zip(ref_axes, shape):
                t = triple(r, n)
                E.ensure("identity-elided-only-for-full", AND(sel_len(t) == n, IMPLIES(n >= 1, t[0] == 0), IMPLIES(n >= 2, t[2] == 1)))
            return
        E.observe("out_chunks", [list(c) for c in out_chunks])
        # ---- per-axis decomposition of the layer
        slice_axes = [a for a in range(rank) if hasattr(ref_axes[a], "start")]
        E.ensure("chunks-rank", len(out_chunks) == len(slice_axes))
        grid = list(itertools.product(*[range(len(c)) for c in out_chunks]))
        E.ensure("key-grid", sorted(layer.keys()) == sorted(("y",) + g for g in grid) and len(layer) == len(grid))
        if sorted(layer.keys()) != sorted(("y",) + g for g in grid):
            return

        def parse(task):
            if task.kind == "alias":
                return task.a[1], tuple(slice(None) for _ in range(rank))
            key, fn, in_key, slices = task.a
            return in_key, tuple(slices)

        per_axis = [dict() for _ in range(rank)]  # axis -> out block j -> (in block, local index)
        for g in grid:
            in_key, slices = parse(layer[("y",) + g])
            if in_key[0] != "x" or len(in_key) != rank + 1 or len(slices) != rank:
                E.ensure("task-shape", False)
                return
            for a in range(rank):
                j = g[slice_axes.index(a)] if a in slice_axes else 0
                cur = (in_key[1 + a], slices[a])
                if j in per_axis[a]:
                    E.ensure("product-structure", AND(per_axis[a][j][0] == cur[0], EQ(per_axis[a][j][1], cur[1])))
                else:
                    per_axis[a][j] = cur
        for a in range(rank):
            r, cs, n = ref_axes[a], chunks[a], shape[a]
            bnd = cumsum0(cs)
            if not hasattr(r, "start"):
                pos = ITE(r < 0, r + n, r)
                blk, off = per_axis[a][0]
                E.ensure(f"int-axis{a}", AND(off >= 0, off < cs[blk], bnd[blk] + off == pos))
                continue
            g = triple(r, n)
            L = sel_len(g)
            oc = out_chunks[slice_axes.index(a)]
            nb = len(oc)
            blks = [per_axis[a][j][0] for j in range(nb)]
            lts = []
            for j in range(nb):
                blk, sl = per_axis[a][j]
                lts.append(triple(sl, cs[blk]))
            # advertised chunk sizes are what the tasks produce
            E.ensure(f"chunks-match-tasks-axis{a}", AND(*[oc[j] == sel_len(lts[j]) for j in range(nb)]))
            # pieces are traversed in NumPy's order: block order follows the sign of the step
            if g[2] > 0:
                E.ensure(f"block-order-axis{a}", all(blks[j] < blks[j + 1] for j in range(nb - 1)))
            else:
                E.ensure(f"block-order-axis{a}", all(blks[j] > blks[j + 1] for j in range(nb - 1)))
            # each piece walks with the global stride
            E.ensure(f"stride-axis{a}", AND(*[OR(sel_len(lt) <= 1, lt[2] == g[2]) for lt in lts]))
            # soundness: everything a piece selects is selected by the index (skolem k per piece)
            for j in range(nb):
                k = E.int(f"k{a}_{j}")
                E.ensure(f"piece-sound-axis{a}", IMPLIES(AND(k >= 0, k < sel_len(lts[j])),
                                                        AND(selected(bnd[blks[j]] + kth(lts[j], k), g), kth(lts[j], k) >= 0,
                                                            kth(lts[j], k) < cs[blks[j]])))
            # completeness: every selected position is produced by the piece of its block
            p = E.int(f"p{a}")
            E.assume(AND(p >= 0, p < n))
            b, q = locate(p, cs)
            if b in blks:
                E.ensure(f"piece-complete-axis{a}", IFF(selected(p, g), selected(q, lts[blks.index(b)])))
            else:
                E.ensure(f"piece-complete-axis{a}", NOT(selected(p, g)))
            if abs(g[2]) == 1:
                E.ensure(f"total-axis{a}", sum(oc) == L)

    def api(values):
        import numpy as np
        import dask_array as da

        chunks = tuple(tuple(values[f"c{a}_{i}"] for i in range(m)) for a, m in enumerate(blocks))
        shape = tuple(sum(c) for c in chunks)
        if any(s > 300 for s in shape):
            return dict(ok=False, detail="too large for an API replay; unit-level replay stands")
        raw = []
        for k, s in enumerate(spec):
            if s == "i":
                raw.append(values[f"i{k}"])
            elif s == "n":
                raw.append(None)
            elif s == "e":
                raw.append(Ellipsis)
            else:
                raw.append(slice(values.get(f"s{k}a"), values.get(f"s{k}b"), s[2]))
        raw = tuple(raw)
        x = np.arange(int(np.prod(shape))).reshape(shape)
        d = da.from_array(x, chunks=chunks)
        try:
            want = x[raw]
        except IndexError:
            try:
                d[raw].compute()
            except IndexError:
                return dict(ok=True, detail="both raise IndexError")
            return dict(ok=False, detail=f"numpy raises IndexError, dask_array does not: index={raw} shape={shape}")
        try:
            y = d[raw]
            got = y.compute()
        except IndexError as e:
            return dict(ok=False, detail=f"dask_array raises {e!r}, numpy does not: index={raw} shape={shape}")
        ok = got.shape == want.shape and bool(np.array_equal(got, want))
        if ok and y.ndim:
            blocks_ok = all(y.blocks[ix].compute().shape == tuple(c[i] for c, i in zip(y.chunks, ix))
                            for ix in itertools.product(*[range(len(c)) for c in y.chunks]))
            ok = ok and blocks_ok
        return dict(ok=ok, detail=f"chunks={chunks} index={raw}: got {np.asarray(got).tolist()} want {want.tolist()}"[:400])

    nm = "x".join(map(str, blocks))
    cost = 1.0
    for s in spec:
        if isinstance(s, tuple):
            cost *= 2 * (3 if (s[2] or 1) < 0 else 1)
    return Instance(f"index[blocks={nm},idx={spec}]", body, dict(blocks=blocks, index=spec),
                    unit="normalize_index+slice_array+SliceSlicesIntegers.chunks/_layer", api_replay=api,
                    cost=cost * max(blocks) ** 2, wall_s=1800)


_VREC = {}


def _fake_vindex_array(x, dict_indexes):
    _VREC["idx"] = dict_indexes
    return "gathered"


def inst_vindex_bounds(npoints, rank):
    """.vindex with integer lists: the bounds guard and the wrap of negative entries (the arithmetic part of
    _vindex; the gather itself is NumPy code on concrete index arrays and is not decided)"""
    import numpy as np

    V = "dask_array.slicing._vindex"

    def body(E):
        rec = _VREC
        rec.clear()
        w = world("C12v", E.symbolic, [V, U, B], extra=dict(_vindex_array=_fake_vindex_array))
        shape = tuple(E.int(f"n{a}", 1) for a in range(rank))

        class X:
            ndim = rank

            def __init__(self):
                self.shape = shape

            def __getitem__(self, ix):
                return self

        ind = [E.int(f"i{k}") for k in range(npoints)]
        indexes = (np.array(ind, dtype=object),) + (slice(None),) * (rank - 1)
        n = shape[0]
        ok = AND(*[AND(v >= -n, v < n) for v in ind])
        try:
            out = w.fn(V, "_vindex")(X(), *indexes)
        except IndexError:
            E.ensure("IndexError-only-when-out-of-bounds", NOT(ok))
            return
        E.ensure("out-of-bounds-raises", ok)
        got = rec["idx"][0]
        E.observe("normalised", list(got))
        E.ensure("wrapped-like-numpy", AND(*[g == ITE(v < 0, v + n, v) for g, v in zip(got, ind)]))

    return Instance(f"vindex_bounds[points={npoints},rank={rank}]", body, dict(points=npoints, rank=rank), unit="_vindex (bounds guard)")


def _program_body(E, w, prog):
    """end to end: `x[index]` (and chains of them) built through Array.__getitem__, optimized and materialized by the
    repository's own pipeline, executed on symbolic blocks, against the NumPy meaning of the same indices"""
    from symx.sarr import same_array

    from . import catalog

    m = catalog.stages(E, w, prog.node, {"materialized"})["materialized"]
    whole, dsk, r = catalog.run_tree(E, m, prog.node.chunks, "materialized")
    same_array(E, whole, prog.ref, label="indexed-values", skolem="pm")
    same_array(E, catalog.computed(E, w, m), prog.ref, label="computed-values", skolem="pc")


def inst_dask_int_index_then(kind):
    """x[i] with an integer dask array i, combined with another basic index (x[i, 1], x[1, i]) or followed by one
    (x[i][:, a:b], x[i][::2]): supported index forms -- the optimizer has to get through them (the slice meets the Blockwise
    that carries the per-block offsets) and the result keeps the advertised shape.  Values are not decided here (the take
    kernel works on NumPy integer arrays)."""
    def body(E):
        import dask_array.io._from_array as FAm
        from symx.sarr import leaf

        from . import catalog

        w = catalog.W(E)
        x = catalog.source(w, E, "x", (2, 2))
        coll = w.fn(catalog.NC, "new_collection")(x.node)
        n = E.int("m", 1)
        meta = np.empty((0,), dtype="i8")
        node = w.space.make(FAm.FromArray, leaf("ix", (n,), dtype="i8"), ((n,),), _symx_attrs=dict(_meta=meta, chunks=((n,),), _name="ix"))
        ix = w.fn(catalog.NC, "new_collection")(node)
        if kind == "x3[s,i,:]":
            # a 0-d and a 1-d integer dask array in one index: the 0-d one drops its axis, the list then sits one axis earlier
            x3 = catalog.source(w, E, "y", (1, 2, 1))
            c3 = w.fn(catalog.NC, "new_collection")(x3.node)
            snode = w.space.make(FAm.FromArray, leaf("s", (), dtype="i8"), (), _symx_attrs=dict(_meta=np.empty((), dtype="i8"), chunks=(), _name="s"))
            s0 = w.fn(catalog.NC, "new_collection")(snode)
            out, shape = c3[s0, ix, :], (n, x3.node.shape[2])
        elif kind == "x[i,1]":
            out, shape = coll[ix, 1], (n,)
        elif kind == "x[1,i]":
            out, shape = coll[1, ix], (n,)
        elif kind == "x[i][:,a:]":
            a = E.int("a", 0)
            E.assume(a <= x.node.shape[1])
            out, shape = coll[ix][:, E.slice(a, None, None)], (n, x.node.shape[1] - a)
        else:
            out, shape = coll[ix][::2], ((n + 1) // 2, x.node.shape[1])
        E.ensure("advertised-shape", EQ(tuple(out.shape), tuple(shape)))
        for stage in ("simplified", "lowered"):
            st = catalog.stages(E, w, out.expr, {stage})[stage]
            E.ensure(f"{stage}-keeps-the-shape", EQ(tuple(st.shape), tuple(shape)))

    def api(values):
        import dask_array as da

        X = np.arange(20).reshape(4, 5)
        x = da.from_array(X, chunks=(2, 3))
        i = np.array([3, 0, 2])
        di = da.from_array(i, chunks=3)
        if kind == "x3[s,i,:]":
            Y = np.arange(60).reshape(3, 4, 5)
            y = da.from_array(Y, chunks=(3, 2, 5))
            got = y[da.from_array(np.array(1), chunks=()), da.from_array(np.array([3, 0, 2]), chunks=3), :].compute(scheduler="sync")
            return dict(ok=bool(got.shape == (3, 5) and np.array_equal(got, Y[1, [3, 0, 2], :])), detail=f"y[s, i, :] on a (3, 4, 5) array: shape {got.shape}")
        got, want = {"x[i,1]": lambda: (x[di, 1], X[i, 1]), "x[1,i]": lambda: (x[1, di], X[1, i]),
                     "x[i][:,a:]": lambda: (x[di][:, 1:], X[i][:, 1:]), "x[i][::2]": lambda: (x[di][::2], X[i][::2])}[kind]()
        return dict(ok=bool(np.array_equal(got.compute(scheduler="sync"), want)), detail=f"{kind} on a (4, 5) array chunked (2, 3)")

    return Instance(f"dask_int_index[{kind}]", body, dict(kind=kind), unit="slice_with_int_dask_array + Blockwise._accept_slice", api_replay=api)


def inst_reshape_then_int(kind):
    """an integer index applied to a reshape that only drops / adds length-1 axes (x of shape (n, 1): x.ravel()[i],
    x.reshape(n, 1, 1)[i, 0]): the optimizer has to get through it -- pushing the integer below the Reshape would leave a 0-d
    operand -- and the result keeps the advertised shape.  Values are not decided here (reshape of symbolic extents)."""
    def body(E):
        from . import catalog

        w = catalog.W(E)
        x = catalog.source(w, E, "x", (2, 1), chunks=[None, (1,)])
        coll = w.fn(catalog.NC, "new_collection")(x.node)
        n = x.node.shape[0]
        i = E.int("i", 0)
        E.assume(i < n)
        RSm = "dask_array.manipulation._reshape"
        if kind == "ravel()[i]":
            out, shape = w.fn(RSm, "reshape")(coll, (n,))[i], ()
        else:
            out, shape = w.fn(RSm, "reshape")(coll, (n, 1, 1))[i, 0], (1,)
        E.ensure("advertised-shape", EQ(tuple(out.shape), tuple(shape)))
        for stage in ("simplified", "lowered"):
            st = catalog.stages(E, w, out.expr, {stage})[stage]
            E.ensure(f"{stage}-keeps-the-shape", EQ(tuple(st.shape), tuple(shape)))

    def api(values):
        import dask_array as da

        cs = (values["x0_0"], values["x0_1"])
        n, i = sum(cs), values["i"]
        if n > 5000:
            return dict(ok=False, detail="outside API replay range")
        X = np.arange(n, dtype="f8").reshape(n, 1)
        x = da.from_array(X, chunks=(cs, (1,)))
        got, want = (x.ravel()[i], X.ravel()[i]) if kind == "ravel()[i]" else (x.reshape(n, 1, 1)[i, 0], X.reshape(n, 1, 1)[i, 0])
        return dict(ok=bool(np.array_equal(got.compute(scheduler="sync"), want)), detail=f"{kind}, x of shape ({n}, 1) chunked {cs}, i={i}")

    return Instance(f"reshape_then_int[{kind}]", body, dict(kind=kind), unit="Reshape._accept_slice", api_replay=api)


def inst_dask_int_values(L, xblocks):
    """x[i] with an integer dask array i: the two block kernels (slice_with_int_dask_array per block of x,
    slice_with_int_dask_array_aggregate per chunk of i), composed the way slice_with_int_dask_array_on_axis wires them, on
    index entries that are *unbounded* symbolic integers (an index chunk of L entries; x has `xblocks` blocks of symbolic
    size): every entry in [-n, n) selects NumPy's element, and an entry outside raises instead of returning data"""
    def body(E):
        import z3

        from symx import core
        from symx.iarr import IArr, INp
        from symx.sarr import concatenate_nested, leaf

        CHK = "dask_array._chunk"
        w = world("C12-intidx", E.symbolic, [CHK])
        w.ns[CHK]["np"] = INp()
        w.ns[CHK]["slice"] = slice
        chunks = tuple(E.int(f"c{i}", 1) for i in range(xblocks))
        n = sum(chunks)
        X = leaf("X", (n,))
        idx = IArr(E.int(f"i{k}") for k in range(L))
        bnd = cumsum0(chunks)
        in_range = AND(*[AND(v >= -n, v < n) for v in idx])
        from symx.sarr import BoundsLog

        log = BoundsLog()  # positions the kernels index their blocks with: outside a block NumPy raises IndexError
        try:
            parts = []
            for i in range(xblocks):
                blk = X[bnd[i]:bnd[i + 1]]
                blk.log = log
                parts.append(w.fn(CHK, "slice_with_int_dask_array")(blk, IArr(idx), [bnd[i]], n, 0))
            E.observe("selected-per-block", [len(p) if isinstance(p.shape[0], int) else -1 for p in parts])
            cat = concatenate_nested(parts)
            cat.log = log
            out = w.fn(CHK, "slice_with_int_dask_array_aggregate")(IArr(idx), cat, chunks, 0)
        except IndexError:
            E.ensure("an-index-in-range-does-not-raise", NOT(in_range))
            return
        inside = AND(*[c for _l, c in log.items])
        E.ensure("an-index-in-range-does-not-raise", IMPLIES(in_range, inside))
        E.ensure("out-of-bounds-index-raises", OR(in_range, NOT(inside)))
        E.assume(inside)  # (otherwise NumPy raised inside a kernel: nothing is returned)
        E.ensure("one-element-per-index-entry", EQ(tuple(out.shape), (L,)))
        for k, v in enumerate(idx):
            pos = core._ite(v < 0, v + n, v)
            E.ensure("selects-numpys-element", core._wrapb(out._at((z3.IntVal(k),)) == X._at((core._z(pos),))))

    def api(values):
        import dask_array as da

        cs = tuple(values[f"c{i}"] for i in range(xblocks))
        ii = [values[f"i{k}"] for k in range(L)]
        n = sum(cs)
        if n > 5000:
            return dict(ok=False, detail="outside API replay range")
        X = np.arange(n) * 10
        x = da.from_array(X, chunks=(cs,))
        try:
            want = X[np.array(ii)]
        except IndexError:
            want = None
        try:
            got = x[da.from_array(np.array(ii), chunks=L)].compute(scheduler="sync")
        except IndexError:
            got = None
        ok = (got is None and want is None) or (got is not None and want is not None and np.array_equal(got, want))
        return dict(ok=bool(ok), detail=f"x chunks {cs}, index {ii}: dask {None if got is None else got.tolist()}, numpy "
                                        f"{None if want is None else want.tolist()} (None = IndexError)")

    return Instance(f"dask_int_index_values[entries={L},x blocks={xblocks}]", body, dict(entries=L, x_blocks=xblocks),
                    unit="chunk.slice_with_int_dask_array + slice_with_int_dask_array_aggregate", api_replay=api, cost=4)


def inst_unknown_axis_chain():
    """x of chunks ((c0, c1), (nan, nan)) -- what x[:, lazy_mask] looks like -- indexed twice along the known axis,
    y[a:][b:]: the fused index must leave the unknown-size axis alone (a full slice: nothing else can be planned there), and
    the result advertises the same two blocks of unknown size along it"""
    def body(E):
        import math

        import dask_array.io._from_array as FAm
        from symx.sarr import leaf

        from . import catalog

        w = catalog.W(E)
        c = tuple(E.int(f"c{i}", 1) for i in range(2))
        nan = float("nan")
        chunks = (c, (nan, nan))
        node = w.space.make(FAm.FromArray, leaf("X", (sum(c), 1)), chunks, _symx_attrs=dict(_meta=np.empty((0, 0)), chunks=chunks, _name="x"))
        # (an inert barrier on top, standing for the boolean-index node, which takes no slice into itself either)
        import dask_array._expr as EXm

        node = w.space.make(EXm.ChunksFreeze, node, chunks)
        coll = w.fn(catalog.NC, "new_collection")(node)
        a, b = E.int("a", 0), E.int("b", 0)
        from symx import core

        y = coll[E.slice(a, None, None)][E.slice(b, None, None)]
        E.ensure("advertises-two-unknown-blocks", len(y.chunks[1]) == 2 and all(math.isnan(v) for v in y.chunks[1]))
        try:
            s = y.expr.simplify()
            sc = s.chunks
        except core.Unsupported as ex:
            if "non-finite" not in str(ex):
                raise
            # the planner did arithmetic with the unknown (nan) sizes and the symbolic bounds: it planned the unknown axis
            E.assume(AND(a >= 1, b >= 1, a + b < sum(c)))  # (x[0:] is x itself: nothing is fused)
            E.ensure("no-arithmetic-on-the-unknown-axis", False)
            return
        E.ensure("simplified-keeps-two-unknown-blocks", len(sc[1]) == 2 and all(math.isnan(v) for v in sc[1]))
        import builtins

        from .common import _walk

        for n in _walk(s):
            real = builtins.type(n).__dict__.get("_symx_real", builtins.type(n))
            if real.__name__ == "SliceSlicesIntegers":
                ix = tuple(n.index) + (slice(None),) * (2 - len(n.index))
                full = ix[1].start is None and ix[1].stop is None and ix[1].step is None
                E.ensure("unknown-axis-keeps-the-full-slice", full)

    def api(values):
        import dask
        import dask_array as da

        cs = (values["c0"], values["c1"])
        a, b = values["a"], values["b"]
        if sum(cs) > 3000:
            return dict(ok=False, detail="outside API replay range")
        A = np.arange(sum(cs) * 4).reshape(sum(cs), 4)
        x = da.from_array(A, chunks=(cs, (2, 2)))
        m = np.array([True, False, True, True])
        want = A[:, m][a:][b:]
        bad = []
        for opt in (True, False):
            with dask.config.set({"array.optimize-graph": opt}):
                try:
                    got = x[:, da.from_array(m, chunks=2)][a:][b:].compute(scheduler="sync")
                    if got.shape != want.shape or not np.array_equal(got, want):
                        bad.append(f"optimize-graph={opt}: shape {got.shape} instead of {want.shape}")
                except Exception as e:
                    bad.append(f"optimize-graph={opt}: {type(e).__name__}")
        return dict(ok=not bad, detail=f"x[:, lazy_mask][{a}:][{b}:], row chunks {cs}: {bad}")

    return Instance("chained_slices_beside_an_unknown_size_axis", body, {}, unit="SliceSlicesIntegers._simplify_down (fusion) + chunks",
                    api_replay=api)


def inst_argtopk_sliced():
    """da.argtopk(x, 2, axis=1)[a:, ::2]: rows selected with a symbolic bound, every other of the k columns.  argtopk pairs
    values with their positions in blocks that are tuples, not arrays; whatever the optimizer does with the index, no getitem
    may be left standing on such blocks (it could not be computed), and the advertised shape is NumPy's"""
    def body(E):
        import builtins

        from . import catalog
        from .common import _walk

        w = catalog.W(E)
        x = catalog.source(w, E, "x", (2, 2), lo=2)
        coll = w.fn(catalog.NC, "new_collection")(x.node)
        y = w.fn("dask_array.routines._topk", "argtopk")(coll, 2, axis=1)
        a = E.int("a", 0)
        E.assume(a <= x.node.shape[0])
        out = y[E.slice(a, None, None), E.slice(None, None, 2)]
        E.ensure("advertised-shape", EQ(tuple(out.shape), (x.node.shape[0] - a, 1)))
        for stage in ("simplified", "lowered"):
            st = catalog.stages(E, w, out.expr, {stage})[stage]
            for n in _walk(st):
                real = builtins.type(n).__dict__.get("_symx_real", builtins.type(n))
                if real.__name__ == "SliceSlicesIntegers":
                    E.ensure(f"{stage}-no-getitem-on-blocks-that-are-not-arrays", n.array.dtype != object)

    def api(values):
        import dask_array as da

        cs = ((values["x0_0"], values["x0_1"]), (values["x1_0"], values["x1_1"]))
        n0, n1, a = sum(cs[0]), sum(cs[1]), values["a"]
        if n0 * n1 > 40000:
            return dict(ok=False, detail="outside API replay range")
        A = np.random.default_rng(0).permutation(n0 * n1).reshape(n0, n1)
        x = da.from_array(A, chunks=cs)
        want = np.argsort(-A, axis=1)[:, :2][a:, ::2]
        try:
            got = da.argtopk(x, 2, axis=1)[a:, ::2].compute(scheduler="sync")
        except TypeError as ex:
            return dict(ok=False, detail=f"argtopk(x, 2, axis=1)[{a}:, ::2], chunks {cs}: TypeError {ex}")
        return dict(ok=bool(np.array_equal(got, want)), detail=f"argtopk(x, 2, axis=1)[{a}:, ::2], chunks {cs}")

    return Instance("argtopk_sliced[rows a:, columns ::2]", body, {}, unit="Reduction._accept_slice + Blockwise._accept_slice (argtopk_preprocess)",
                    api_replay=api)


def inst_refusal(kind):
    """index forms the implementation does not support must raise, not return data: an integer dask array next to a list /
    NumPy array index on another axis, or two list indices (x's chunk sizes symbolic)"""
    def body(E):
        from . import catalog

        w = catalog.W(E)
        x = catalog.source(w, E, "x", (2, 2))
        coll = w.fn(catalog.NC, "new_collection")(x.node)
        if kind.startswith("dask-int"):
            import dask_array.io._from_array as FAm
            from symx.sarr import leaf

            n = E.int("m", 1)
            meta = np.empty((0,), dtype="i8")
            node = w.space.make(FAm.FromArray, leaf("ix", (n,), dtype="i8"), ((n,),), _symx_attrs=dict(_meta=meta, chunks=((n,),), _name="ix"))
            ix = w.fn(catalog.NC, "new_collection")(node)
            other = [0, 1] if kind == "dask-int+list" else np.array([0, 1])
            index = (ix, other)
        else:
            index = ([0, 1], [1, 0])
        try:
            out = coll[index]
        except NotImplementedError:
            E.ensure("unsupported-index-raises", True)
            return
        except IndexError:
            E.ensure("refused-as-unsupported-not-as-out-of-bounds", False)
            return
        E.ensure("unsupported-index-raises", False)

    return Instance(f"refusal[{kind}]", body, dict(kind=kind), unit="Array.__getitem__ + slice_with_int_dask_array (guards)")


def _program_instances(tier):
    from . import catalog

    return catalog.make_instances(tier, "C12", _program_body, "Array.__getitem__ + slice fusion/pushdown + layers + block kernels",
                                  select=lambda name: "[" in name and "rechunk" not in name and "sum(" not in name)


def instances(tier):
    q = tier == "quick"
    out = []
    steps = [None, 1, 2, 3, -1, -2, -3] if q else [None, 1, 2, 3, 4, -1, -2, -3, -4]
    nblocks = [1, 2, 3] if q else [1, 2, 3, 4]
    for m in nblocks:
        for st in steps:
            for ps, pe in itertools.product((0, 1), repeat=2):
                out.append(inst_index((m,), ((ps, pe, st),)))
        out.append(inst_index((m,), ("i",)))
        out.append(inst_index((m,), ("n", (1, 1, None))))
        out.append(inst_index((m,), ((1, 1, -1), "n")))
        out.append(inst_index((m,), ("e",)))
        out.append(inst_index((m,), ("n", "e", "n")))
    two = [
        ((2, 2), ((1, 1, None), (1, 1, None))),
        ((2, 2), ((1, 1, -1), (1, 1, 2))),
        ((2, 2), ((1, 0, 2), (0, 1, -1))),
        ((2, 2), ("i", (1, 1, None))),
        ((2, 2), ((1, 1, -2), "i")),
        ((2, 2), ("i", "i")),
        ((2, 2), ("e", "i")),
        ((2, 2), ("i", "e")),
        ((2, 2), ("n", "i", (1, 1, None))),
        ((2, 2), ("i", "n", (1, 1, -1))),
        ((2, 2), ((1, 1, None), "n", "i")),
        ((2, 2), ("e", "n")),
        ((2, 1), ("n", (1, 1, None), "n", "i")),
        ((1, 2), ("n", "n", "i")),
        ((2, 1), ("i", "n", (1, 1, None), "n")),
        ((2, 2), ("n", "e", (1, 1, 2))),
        ((2, 2), ((1, 1, None),)),
        ((3, 2), ((1, 1, -1), (1, 1, -1))),
        ((2, 3), ((0, 0, -1), (1, 1, None))),
    ]
    if not q:
        two += [
            ((3, 2), ((1, 1, 2), (1, 1, -2))),
            ((2, 3), ((1, 1, -3), (1, 1, 3))),
            ((3, 2), ("i", (1, 1, -2))),
            ((2, 3), ("n", (1, 1, None), "n", (1, 1, -1))),
            ((3, 3), ((1, 1, None), (1, 1, None))),
            ((2, 2), ("i", "n", "n", "i")),
        ]
    for b, s in two:
        out.append(inst_index(b, s))
    out.extend(_program_instances(tier))
    for kind in ("dask-int+list", "dask-int+ndarray", "list+list"):
        out.append(inst_refusal(kind))
    out.append(inst_unknown_axis_chain())
    out.append(inst_argtopk_sliced())
    out.append(inst_dask_int_values(1, 2))
    out.append(inst_dask_int_values(2, 2))
    if not q:
        out.append(inst_dask_int_values(3, 3))
    for kind in ("ravel()[i]", "reshape(n,1,1)[i,0]"):
        out.append(inst_reshape_then_int(kind))
    for kind in ("x[i,1]", "x[1,i]", "x[i][:,a:]", "x[i][::2]", "x3[s,i,:]"):
        out.append(inst_dask_int_index_then(kind))
    out.append(inst_vindex_bounds(1, 1))
    out.append(inst_vindex_bounds(2, 1))
    out.append(inst_vindex_bounds(2, 2))
    return out
