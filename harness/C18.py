"""C18 -- Reductions are independent of chunking and tree shape.

(a) tree shape: the real ``_build_tree_reduce_expr`` / ``PartialReduce.chunks`` / ``PartialReduce._layer``
    (with ``_normalize_split_every`` and ``_concatenate2``) build the reduction tree over a symbolic
    array whose per-block partial sums were produced by the real chunk function; the graph is executed
    on symbolic arrays and the result equals the sum over the whole axis for every chunk-size
    assignment, every enumerated block count and split_every.
(b) combine algebra: the real mean_* / moment_* / arg_* chunk-combine-aggregate functions run on
    object arrays of symbolic reals; for every data vector the tree result equals the definition
    (mean, variance/moments with ddof, first arg-extremum including ties), for every grouping of the
    enumerated sizes."""
from __future__ import annotations

import itertools
import math
import operator
from functools import partial

import numpy as np
import z3

from symx import core
from symx.core import SymReal, _wrapb
from symx.graph import layer_keys_ok, run_blocks
from symx.oracle import AND, EQ, IMPLIES, ITE, NOT, OR, cumsum0
from symx.runner import Instance
from symx.sarr import SArr, leaf, same_array
from symx.world import SHIM_LIST, SymNp

from .common import Cfg, collect_graph, unit_hashes, world

import warnings

warnings.filterwarnings("ignore", message="All-NaN (axis|slice) encountered", category=RuntimeWarning)

PROPERTY = "C18"
RD = "dask_array.reductions._reduction"
CMN = "dask_array.reductions._common"
EX = "dask_array._expr"
CU = "dask_array._core_utils"
CH = "dask_array._chunk"
FA = "dask_array.io._from_array"
IOB = "dask_array.io._base"
MODS = [RD, EX, CU, FA, IOB]
UNITS = [(RD, "_build_tree_reduce_expr"), (RD, "_normalize_split_every"), (RD, "PartialReduce.chunks"),
         (RD, "PartialReduce._layer"), (CU, "_concatenate2"), (CMN, "mean_chunk"), (CMN, "mean_combine"), (CMN, "mean_agg"),
         (CMN, "moment_chunk"), (CMN, "moment_combine"), (CMN, "moment_agg"), (CMN, "_moment_helper"), (CMN, "arg_chunk"),
         (CMN, "_arg_combine"), (CMN, "arg_combine"), (CMN, "arg_agg")]
STUBS = SHIM_LIST + [
    "(a) expression classes -> symx.nodes; per-block partial results -> the real chunk function applied to symbolic blocks; "
    "np.sum over a view of the source -> uninterpreted prefix function (symx.sarr)",
    "(b) the repository's functions run unmodified (no shims) on NumPy object arrays whose elements are symbolic reals; "
    "dtype=object is passed where the functions take a dtype (exact arithmetic; float rounding is not modelled)",
]
ASSUMPTIONS = [
    "(a) block count (1..9 quick), split_every (2..5), rank <= 2 with one reduced axis are concrete; chunk sizes symbolic, unbounded",
    "(b) group layouts are enumerated (up to 3 groups of up to 3 elements, two-level trees); data values are symbolic reals; "
    "equality is decided over the reals (tolerance clauses of the property are not decided)",
    "nan-variants, topk, percentiles, dtype promotion and multi-axis reductions in one PartialReduce are outside this check",
]


def units():
    return unit_hashes(UNITS)


def bounds(tier):
    q = tier == "quick"
    return dict(blocks=list(range(1, 10)) if q else list(range(1, 17)), split_every=[2, 3, 4, 5] if q else [2, 3, 4, 5, 8, 16],
                groups="<=3 groups of <=3 elements")


class _Np(SymNp):
    @staticmethod
    def asarray(x, *a, **k):
        return x if isinstance(x, SArr) else np.asarray(x, *a, **k)


def W(E):
    w = world("C18", E.symbolic, MODS, nodes=True, extra=dict(config=Cfg({"split_every": 4})))
    w.space.reset()
    return w


# ------------------------------------------------------------------ (a) tree shape


def inst_tree(blocks, axis, split_every, keepdims):
    def body(E):
        import dask_array._expr as EXm
        import dask_array.io._from_array as FAm

        w = W(E)
        chunks = tuple(tuple(E.int(f"c{a}_{i}", 1) for i in range(m)) for a, m in enumerate(blocks))
        X = leaf("X", tuple(sum(c) for c in chunks))
        cs = [cumsum0(c) for c in chunks]
        # stage 1 (Blockwise in the real lowering): the chunk function on every block
        tmp_chunks = tuple(tuple(1 for _ in c) if a == axis else c for a, c in enumerate(chunks))
        dsk = {}
        for g in itertools.product(*[range(m) for m in blocks]):
            blk = X[tuple(slice(c[i], c[i + 1]) for c, i in zip(cs, g))]
            dsk[("tmp",) + g] = np.sum(blk, axis=axis, keepdims=True)
        meta = np.empty((0,) * len(blocks))
        src = w.space.make(FAm.FromArray, X, chunks, _symx_attrs=dict(_meta=meta, chunks=chunks, _name="x"))
        tmp = w.space.make(EXm.ChunksOverride, src, tmp_chunks, _symx_attrs=dict(_meta=meta, _name="tmp"))
        root = w.fn(RD, "_build_tree_reduce_expr")(tmp, np.sum, (axis,), keepdims, "f8", split_every, None, "sum", True, None)
        # collect the PartialReduce layers down to tmp
        node, depth = root, 0
        while node is not tmp:
            dsk.update(node._layer())
            node = node.array
            depth += 1
        out_chunks = root.chunks
        E.observe("depth", depth)
        E.observe("chunks", [list(c) for c in out_chunks])
        want_chunks = tuple((1,) if a == axis else c for a, c in enumerate(chunks)) if keepdims else \
            tuple(c for a, c in enumerate(chunks) if a != axis)
        E.ensure("one-block-on-reduced-axis", EQ(tuple(out_chunks), want_chunks))
        layer_keys_ok(E, dsk, root._name, tuple(len(c) for c in out_chunks))
        whole, r = run_blocks(E, dsk, root._name, out_chunks)
        # every partial block feeds the tree exactly once
        used = [b for (a, b) in r.refs if isinstance(b, tuple) and b[0] == "tmp"]
        E.ensure("every-block-used-once", sorted(used) == sorted(("tmp",) + g for g in itertools.product(*[range(m) for m in blocks])))
        same_array(E, whole, X.reduce_axis(axis, "add", keepdims=keepdims), label="sum")

    nm = "x".join(map(str, blocks))
    return Instance(f"tree_sum[blocks={nm},axis={axis},split_every={split_every},keepdims={keepdims}]", body,
                    dict(blocks=blocks, axis=axis, split_every=split_every, keepdims=keepdims),
                    unit="_build_tree_reduce_expr + PartialReduce.chunks/_layer")


def inst_tree_structure(blocks, axes, split_every, keepdims=True):
    """several reduced axes (not executable on the symbolic-array model): the tree built by the real
    _build_tree_reduce_expr ends with one block on every reduced axis, every level's key grid is the product of its
    chunks, and every block of every level is consumed by exactly one group of the next level"""
    def body(E):
        import dask_array._expr as EXm
        import dask_array.io._from_array as FAm
        from dask.core import flatten

        w = W(E)
        chunks = tuple(tuple(E.int(f"c{a}_{i}", 1) for i in range(m)) for a, m in enumerate(blocks))
        X = leaf("X", tuple(sum(c) for c in chunks))
        tmp_chunks = tuple(tuple(1 for _ in c) if a in axes else c for a, c in enumerate(chunks))
        meta = np.empty((0,) * len(blocks))
        src = w.space.make(FAm.FromArray, X, chunks, _symx_attrs=dict(_meta=meta, chunks=chunks, _name="x"))
        tmp = w.space.make(EXm.ChunksOverride, src, tmp_chunks, _symx_attrs=dict(_meta=meta, _name="tmp"))
        root = w.fn(RD, "_build_tree_reduce_expr")(tmp, np.sum, tuple(axes), keepdims, "f8", split_every, None, "sum", True, None)
        want = tuple((1,) if a in axes else c for a, c in enumerate(chunks)) if keepdims else \
            tuple(c for a, c in enumerate(chunks) if a not in axes)
        E.observe("chunks", [list(c) for c in root.chunks])
        E.ensure("one-block-on-every-reduced-axis", EQ(tuple(root.chunks), want))
        node = root
        while node is not tmp:
            layer = node._layer()
            nb = tuple(len(c) for c in node.chunks)
            E.ensure("level-key-grid", set(layer) == {(node._name,) + g for g in itertools.product(*[range(n) for n in nb])})
            used = []
            for t in layer.values():
                used += [k for k in flatten(t[1]) if isinstance(k, tuple)]
            below = node.array
            nb_below = tuple(len(c) for c in below.chunks)
            E.ensure("every-lower-block-consumed-exactly-once",
                     sorted(used) == sorted((below.name,) + g for g in itertools.product(*[range(n) for n in nb_below])))
            node = below

    nm = "x".join(map(str, blocks))
    return Instance(f"tree_structure[blocks={nm},axes={axes},split_every={split_every},keepdims={keepdims}]", body,
                    dict(blocks=blocks, axes=axes, split_every=split_every), unit="_build_tree_reduce_expr + PartialReduce.chunks/_layer")


def inst_public_extremum(which, chunks, split_every):
    """the public min/max (the chunk, combine and aggregate functions they wire into `reduction`, the tree the real lowering
    builds for `split_every`) over a 1-d array whose chunk sizes -- zero-length chunks included -- are concrete and whose data
    is symbolic: the graph of the real layers is executed on object arrays of symbolic reals and the result must be an
    element of the data that bounds all of it"""
    n = sum(chunks)

    def body(E):
        import dask_array.io._from_array as FAm
        from symx.graph import Runner

        from . import catalog

        w = catalog.W(E)
        xs = _sym_data(E, n)
        meta = np.empty((0,))
        cs = (tuple(chunks),)
        node = w.space.make(FAm.FromArray, leaf("X", (n,)), cs, _symx_attrs=dict(_meta=meta, chunks=cs, _name="x"))
        blocks, k = {}, 0
        for i, c in enumerate(chunks):
            blocks[("x", i)] = np.array(list(xs[k:k + c]), dtype=object)
            k += c
        node.__dict__["_symx_layer"] = blocks
        coll = w.fn(catalog.NC, "new_collection")(node)
        out = w.fn(catalog.RCM, which)(coll, axis=0, split_every=split_every)
        m = catalog.stages(E, w, out.expr, {"materialized"})["materialized"]
        dsk = catalog._layers(m)
        E.observe("tasks", len(dsk))
        res = Runner(dsk).get((m._name,))
        res = np.asarray(res, dtype=object).ravel()
        E.ensure("scalar-result", len(res) == 1)
        r = res[0]
        if which == "min":
            E.ensure("bounds-all", AND(*[r <= v for v in xs]))
        else:
            E.ensure("bounds-all", AND(*[r >= v for v in xs]))
        E.ensure("is-an-element", OR(*[r == v for v in xs]))

    return Instance(f"public_{which}[chunks={chunks},split_every={split_every}]", body, dict(chunks=chunks, split_every=split_every),
                    unit=f"reductions._common.{which} + reduction() + tree lowering + chunk_{which}/partial_reduce", cost=2 ** n)


def inst_public_extremum_nd(which, chunks, axis, split_every=None):
    """the public min/max along one axis of a 2-d array with concrete chunk sizes, zero-length chunks included (what a strided
    slice or an empty selection leaves behind), symbolic data: advertised shape = computed shape = NumPy's, and every output
    position holds an element of its slice that bounds the slice"""
    shape = tuple(sum(c) for c in chunks)

    def body(E):
        import dask_array.io._from_array as FAm
        from symx.graph import Runner

        from . import catalog

        w = catalog.W(E)
        X = np.empty(shape, dtype=object)
        for pos in itertools.product(*[range(n) for n in shape]):
            X[pos] = E.real("x" + "_".join(map(str, pos)))
        cs = tuple(tuple(c) for c in chunks)
        node = w.space.make(FAm.FromArray, leaf("X", shape), cs, _symx_attrs=dict(_meta=np.empty((0, 0)), chunks=cs, _name="x"))
        bnd = [np.cumsum((0,) + c) for c in cs]
        node.__dict__["_symx_layer"] = {("x",) + g: X[tuple(slice(b[i], b[i + 1]) for b, i in zip(bnd, g))].copy()
                                        for g in itertools.product(*[range(len(c)) for c in cs])}
        coll = w.fn(catalog.NC, "new_collection")(node)
        out = w.fn(catalog.RCM, which)(coll, axis=axis, split_every=split_every)
        other = 1 - axis
        E.ensure("advertised-shape-is-numpys", tuple(out.shape) == (shape[other],))
        m = catalog.stages(E, w, out.expr, {"materialized"})["materialized"]
        r = Runner(catalog._layers(m))
        parts = [np.asarray(r.get((m._name, j)), dtype=object) for j in range(len(m.chunks[0]))]
        E.ensure("blocks-have-the-advertised-shape", all(p.shape == (c,) for p, c in zip(parts, m.chunks[0])))
        res = list(np.concatenate([p.ravel() for p in parts])) if parts else []
        E.ensure("computed-length", len(res) == shape[other])
        for j, v in enumerate(res[:shape[other]]):
            line = [X[(k, j) if axis == 0 else (j, k)] for k in range(shape[axis])]
            E.ensure(f"slice{j}-bounds", AND(*[(v <= u) if which == "min" else (v >= u) for u in line]))
            E.ensure(f"slice{j}-member", OR(*[v == u for u in line]))

    nm = "x".join("+".join(map(str, c)) for c in chunks)
    return Instance(f"public_{which}_2d[chunks={nm},axis={axis},split_every={split_every}]", body, dict(chunks=chunks, axis=axis),
                    unit=f"reductions._common.{which} + chunk_{which} + tree lowering on blocks with zero-length axes", cost=4)


def inst_public_topk(chunks, k, split_every=None):
    """the public topk over a 1-d array with concrete chunk sizes and symbolic data, through the real reduction tree and
    chunk.topk / topk_aggregate on object-array blocks: the result has min(|k|, n) elements -- the advertised shape --, is
    sorted (descending for k > 0, ascending for k < 0) and every element of the data is either no better than the last one
    returned or equal to a returned value"""
    n = sum(chunks)

    def body(E):
        import dask_array.io._from_array as FAm
        from symx.graph import Runner

        from . import catalog

        w = catalog.W(E)
        xs = _sym_data(E, n)
        cs = (tuple(chunks),)
        node = w.space.make(FAm.FromArray, leaf("X", (n,)), cs, _symx_attrs=dict(_meta=np.empty((0,)), chunks=cs, _name="x"))
        blocks, pos = {}, 0
        for i, c in enumerate(chunks):
            blocks[("x", i)] = np.array(list(xs[pos:pos + c]), dtype=object)
            pos += c
        node.__dict__["_symx_layer"] = blocks
        coll = w.fn(catalog.NC, "new_collection")(node)
        out = w.fn("dask_array.routines._topk", "topk")(coll, k, split_every=split_every)
        m = catalog.stages(E, w, out.expr, {"materialized"})["materialized"]
        dsk = catalog._layers(m)
        r = Runner(dsk)
        parts = [np.asarray(r.get((m._name, j)), dtype=object).ravel() for j in range(len(m.chunks[0]))]
        res = list(np.concatenate(parts)) if parts else []
        want = min(abs(k), n)
        E.ensure("computed-length-is-min(|k|,n)", len(res) == want)
        E.ensure("advertised-shape-is-the-computed-shape", out.shape == (len(res),) and tuple(map(sum, out.chunks)) == (len(res),))
        better = (lambda a, b: a >= b) if k > 0 else (lambda a, b: a <= b)
        E.ensure("sorted", AND(*[better(res[i], res[i + 1]) for i in range(len(res) - 1)]) if len(res) > 1 else True)
        if res:
            E.ensure("members-of-the-data", AND(*[OR(*[v == x for x in xs]) for v in res]))
            E.ensure("nothing-better-left-out", AND(*[OR(better(res[-1], x), *[x == v for v in res]) for x in xs]))

    return Instance(f"public_topk[chunks={chunks},k={k},split_every={split_every}]", body, dict(chunks=chunks, k=k, split_every=split_every),
                    unit="routines._topk.topk + reduction() + tree lowering + chunk.topk/topk_aggregate", cost=3 ** n)


def inst_public_argtopk(chunks, k, split_every=None):
    """the public argtopk (1-d, concrete chunk sizes, symbolic data; positions come from the real arange layer): min(|k|, n)
    positions, pairwise distinct, in range, whose values are sorted and leave nothing better out"""
    n = sum(chunks)

    def body(E):
        import dask_array.io._from_array as FAm
        from symx.graph import Runner

        from . import catalog

        w = catalog.W(E)
        xs = _sym_data(E, n)
        cs = (tuple(chunks),)
        node = w.space.make(FAm.FromArray, leaf("X", (n,)), cs, _symx_attrs=dict(_meta=np.empty((0,)), chunks=cs, _name="x"))
        blocks, pos = {}, 0
        for i, c in enumerate(chunks):
            blocks[("x", i)] = np.array(list(xs[pos:pos + c]), dtype=object)
            pos += c
        node.__dict__["_symx_layer"] = blocks
        coll = w.fn(catalog.NC, "new_collection")(node)
        out = w.fn("dask_array.routines._topk", "argtopk")(coll, k, split_every=split_every)
        m = catalog.stages(E, w, out.expr, {"materialized"})["materialized"]
        dsk = catalog._layers(m)
        r = Runner(dsk, kernels=dict(arange=None))  # index blocks are real NumPy integers here
        parts = [np.asarray(r.get((m._name, j))).ravel() for j in range(len(m.chunks[0]))]
        res = [int(v) for v in np.concatenate(parts)] if parts else []
        want = min(abs(k), n)
        E.ensure("computed-length-is-min(|k|,n)", len(res) == want)
        E.ensure("advertised-shape-is-the-computed-shape", out.shape == (len(res),))
        E.ensure("positions-distinct-and-in-range", len(set(res)) == len(res) and all(0 <= v < n for v in res))
        if len(set(res)) != len(res) or not all(0 <= v < n for v in res):
            return
        better = (lambda a, b: a >= b) if k > 0 else (lambda a, b: a <= b)
        vals = [xs[v] for v in res]
        E.ensure("sorted", AND(*[better(vals[i], vals[i + 1]) for i in range(len(vals) - 1)]) if len(vals) > 1 else True)
        if vals:
            E.ensure("nothing-better-left-out", AND(*[better(vals[-1], xs[j]) for j in range(n) if j not in res]) if len(res) < n else True)

    return Instance(f"public_argtopk[chunks={chunks},k={k},split_every={split_every}]", body, dict(chunks=chunks, k=k, split_every=split_every),
                    unit="routines._topk.argtopk + reduction() + chunk.argtopk/argtopk_aggregate", cost=3 ** n)


def inst_public_nanarg(which, chunks, nan_at, axis, split_every=None):
    """the public nanargmin/nanargmax along `axis` of a 2-d array with concrete chunk sizes, NaN at the positions `nan_at`
    and symbolic reals elsewhere (object-array blocks through the real graph): per output slice, the answer is the first
    position among the non-NaN entries attaining the extremum (slices that are NaN throughout must not occur: NumPy raises)"""
    shape = tuple(sum(c) for c in chunks)

    def body(E):
        import dask_array.io._from_array as FAm
        from symx.graph import Runner

        from . import catalog

        w = catalog.W(E)
        # concrete replays run the un-shimmed NumPy (np.isnan needs a float array): rationals become floats there
        X = np.empty(shape, dtype=object if E.symbolic else float)
        for pos in itertools.product(*[range(n) for n in shape]):
            v = float("nan") if pos in nan_at else E.real("x" + "_".join(map(str, pos)))
            X[pos] = v if E.symbolic else float(v)
        meta = np.empty((0,) * len(shape))
        cs = tuple(tuple(c) for c in chunks)
        node = w.space.make(FAm.FromArray, leaf("X", shape), cs, _symx_attrs=dict(_meta=meta, chunks=cs, _name="x"))
        bnd = [np.cumsum((0,) + c) for c in cs]
        node.__dict__["_symx_layer"] = {("x",) + g: X[tuple(slice(b[i], b[i + 1]) for b, i in zip(bnd, g))].copy()
                                        for g in itertools.product(*[range(len(c)) for c in cs])}
        coll = w.fn(catalog.NC, "new_collection")(node)
        out = w.fn(catalog.RCM, which)(coll, axis=axis, split_every=split_every)
        m = catalog.stages(E, w, out.expr, {"materialized"})["materialized"]
        dsk = catalog._layers(m)
        r = Runner(dsk)
        nb = tuple(len(c) for c in m.chunks)
        parts = [np.asarray(r.get((m._name,) + g)) for g in itertools.product(*[range(n) for n in nb])]
        res = np.concatenate([p.ravel() for p in parts])
        other = 1 - axis
        E.ensure("one-answer-per-slice", len(res) == shape[other])
        for j in range(min(len(res), shape[other])):
            got = int(res[j])
            line = [X[(k, j) if axis == 0 else (j, k)] for k in range(shape[axis])]
            valid = [k for k in range(shape[axis]) if ((k, j) if axis == 0 else (j, k)) not in nan_at]
            E.ensure(f"slice{j}-answer-is-not-a-nan-position", got in valid)
            if got not in valid:
                continue
            best = line[got]
            conds = []
            for k in valid:
                if k < got:
                    conds.append(line[k] < best if "max" in which else line[k] > best)
                elif k > got:
                    conds.append(line[k] <= best if "max" in which else line[k] >= best)
            E.ensure(f"slice{j}-first-extremum-among-non-nan", AND(*conds) if conds else True)

    nm = "x".join("+".join(map(str, c)) for c in chunks)
    return Instance(f"public_{which}[chunks={nm},nan_at={sorted(nan_at)},axis={axis},split_every={split_every}]", body,
                    dict(chunks=chunks, nan_at=sorted(nan_at), axis=axis), unit=f"reductions._common.{which} + arg_reduction + arg_chunk/"
                    "arg_combine/nanarg_agg/_nanarg* through the real tree", cost=2 ** (shape[0] * shape[1] - len(nan_at)))


# ------------------------------------------------------------------ (b) combine algebra on symbolic data


def _sym_data(E, n):
    return np.array([E.real(f"x{i}") for i in range(n)], dtype=object)


def _groups(xs, sizes):
    out, k = [], 0
    for s in sizes:
        out.append(xs[k:k + s])
        k += s
    return out


def _req(a, b):
    """equality of two symbolic reals / plain numbers as a condition"""
    a = a.item() if isinstance(a, np.ndarray) else a
    b = b.item() if isinstance(b, np.ndarray) else b
    if isinstance(a, core.FloatNaN) or isinstance(b, core.FloatNaN):
        return False
    return a == b


def _rsum(x, **kw):
    """the `sum=` the moment functions are parametrised with: np.sum, with an exact-real zero added so that the sum of an
    empty block is a real 0.0 (as for float arrays) rather than the Python int 0 object arrays would give"""
    return np.sum(x, **kw) + SymReal._of(0)


class _ieee:
    """x/0 -> NaN inside the block (the repository's functions run under np.errstate(ignore))"""

    def __enter__(self):
        core.IEEE_DIV = True

    def __exit__(self, *a):
        core.IEEE_DIV = False


def inst_mean(sizes, two_level):
    n = sum(sizes)

    def body(E):
        import dask_array.reductions._common as C

        xs = _sym_data(E, n)
        parts = [C.mean_chunk(g, dtype=object, axis=(0,), keepdims=True) for g in _groups(xs, sizes)]
        if two_level and len(parts) > 2:
            left = C.mean_combine(parts[:2], dtype=object, axis=(0,), keepdims=True)
            parts = [left] + parts[2:]
        res = C.mean_agg(parts, dtype=object, axis=(0,), keepdims=True)
        total = xs[0]
        for v in xs[1:]:
            total = total + v
        return _req(res, total / n)

    return Instance(f"mean[groups={sizes},two_level={two_level}]", body, dict(sizes=sizes, two_level=two_level), unit="mean_chunk/combine/agg")


def inst_moment(sizes, order, ddof, two_level):
    n = sum(sizes)

    def body(E):
        import dask_array.reductions._common as C

        xs = _sym_data(E, n)
        with _ieee():
            parts = [C.moment_chunk(g, order=order, sum=_rsum, dtype=object, axis=(0,), keepdims=True) for g in _groups(xs, sizes)]
            if two_level and len(parts) > 2:
                left = C.moment_combine(parts[:2], order=order, ddof=ddof, sum=_rsum, dtype=object, axis=(0,))
                parts = [left] + parts[2:]
            res = C.moment_agg(parts, order=order, ddof=ddof, sum=_rsum, dtype=object, axis=(0,), keepdims=True)
        mu = sum(xs[1:], xs[0]) / n
        m = sum([(v - mu) ** order for v in xs[1:]], (xs[0] - mu) ** order) / (n - ddof)
        return _req(res, m)

    return Instance(f"moment[groups={sizes},order={order},ddof={ddof},two_level={two_level}]", body,
                    dict(sizes=sizes, order=order, ddof=ddof, two_level=two_level), unit="moment_chunk/combine/agg",
                    cost=order * n, timeout_ms=60000)


def inst_arg(sizes, which, two_level):
    n = sum(sizes)

    def body(E):
        import dask_array.reductions._common as C

        xs = _sym_data(E, n)
        func, argfunc = (np.min, np.argmin) if which == "argmin" else (np.max, np.argmax)
        parts, off = [], 0
        for g in _groups(xs, sizes):
            parts.append(C.arg_chunk(func, argfunc, g, (0,), ((off,), (n,))))
            off += len(g)

        def cat(ps):
            return {"vals": np.concatenate([p["vals"] for p in ps]), "arg": np.concatenate([p["arg"] for p in ps])}

        if two_level and len(parts) > 2:
            left = C.arg_combine(argfunc, cat(parts[:2]), axis=(0,))
            parts = [left] + parts[2:]
        res = C.arg_agg(argfunc, cat(parts), axis=(0,), keepdims=True)
        res = int(np.asarray(res).ravel()[0])
        # definition: the first index attaining the extremum
        best = xs[res]
        conds = []
        for j, v in enumerate(xs):
            if j < res:
                conds.append(v > best if which == "argmin" else v < best)
            elif j > res:
                conds.append(v >= best if which == "argmin" else v <= best)
        return AND(*conds) if conds else True

    return Instance(f"{which}[groups={sizes},two_level={two_level}]", body, dict(sizes=sizes, which=which, two_level=two_level),
                    unit="arg_chunk/_arg_combine/arg_agg", cost=2 ** n)


def inst_arg_nd(chunks, which, two_level=False):
    """argmin/argmax over all axes (axis=None) of a 2-D array: first extremum in NumPy's flat (row-major) order;
    two_level: the blocks of the first two block-columns go through an intermediate arg_combine first"""
    shape = tuple(sum(c) for c in chunks)

    def body(E):
        import dask_array.reductions._common as C
        from dask_array._core_utils import _concatenate2

        xs = np.array([E.real(f"x{i}") for i in range(int(np.prod(shape)))], dtype=object).reshape(shape)
        func, argfunc = (np.min, np.argmin) if which == "argmin" else (np.max, np.argmax)
        cs = [cumsum0(c) for c in chunks]
        nested = []
        for i in range(len(chunks[0])):
            row = []
            for j in range(len(chunks[1])):
                blk = xs[cs[0][i]:cs[0][i + 1], cs[1][j]:cs[1][j + 1]]
                row.append(C.arg_chunk(func, argfunc, blk, (0, 1), ((cs[0][i], cs[1][j]), shape)))
            nested.append(row)
        if two_level and len(chunks[1]) > 2:
            nested = [[C.arg_combine(argfunc, _concatenate2([row[:2]], axes=[0, 1]), axis=(0, 1))] + row[2:] for row in nested]
        data = _concatenate2(nested, axes=[0, 1])
        res = C.arg_agg(argfunc, data, axis=(0, 1), keepdims=True)
        res = int(np.asarray(res).ravel()[0])
        flat = xs.ravel()
        best = flat[res]
        conds = []
        for j, v in enumerate(flat):
            if j < res:
                conds.append(v > best if which == "argmin" else v < best)
            elif j > res:
                conds.append(v >= best if which == "argmin" else v <= best)
        return AND(*conds) if conds else True

    return Instance(f"{which}_flat[chunks={chunks},two_level={two_level}]", body, dict(chunks=chunks, which=which, two_level=two_level),
                    unit="arg_chunk/_arg_combine/arg_combine/arg_agg", cost=2 ** int(np.prod(shape)))


def _program_body(E, w, prog):
    """the public sum with a slice pushed through it (kept and dropped reduced axes): same elements as slicing the full result"""
    from . import catalog

    for stage in ("materialized", "materialized_off"):
        m = catalog.stages(E, w, prog.node, {stage})[stage]
        whole, dsk, r = catalog.run_tree(E, m, prog.node.chunks, stage, check_shapes=True)
        same_array(E, whole, prog.ref, label=f"{stage}-values", skolem=f"p{stage[-1]}")


def _program_instances(tier):
    from . import catalog

    return catalog.make_instances(tier, "C18", _program_body, "Reduction._accept_slice + lowering + PartialReduce kernels",
                                  select=lambda name: name.startswith(("sum(", "moment(")))


def instances(tier):
    q = tier == "quick"
    out = _program_instances(tier)
    nblocks = list(range(1, 10)) if q else list(range(1, 17))
    ses = [2, 3, 4, 5] if q else [2, 3, 4, 5, 8, 16]
    for m in nblocks:
        for se in ses:
            if q and m > 5 and se > 3:
                continue
            out.append(inst_tree((m,), 0, se, False))
    out.append(inst_tree((3,), 0, {0: 2}, True))
    out.append(inst_tree((4,), 0, {0: 1}, False))
    out.append(inst_tree((3,), 0, {0: 3}, False))
    out.append(inst_tree((2,), 0, 1, False))
    out.append(inst_tree((2, 3), 1, 2, False))
    out.append(inst_tree((3, 2), 0, 2, True))
    out.append(inst_tree((4, 2), 0, 3, False))
    layouts = [(1,), (2,), (1, 1), (2, 1), (1, 2), (2, 2), (1, 1, 1), (2, 1, 2), (1, 3, 1)]
    if not q:
        layouts += [(3, 3), (3, 2, 1), (2, 2, 2), (1, 1, 1, 1)]
    for s in layouts:
        out.append(inst_mean(s, False))
        if len(s) > 2:
            out.append(inst_mean(s, True))
        if sum(s) >= 2:
            out.append(inst_moment(s, 2, 0, False))
            out.append(inst_moment(s, 2, 1, len(s) > 2))
        if sum(s) <= 5:
            out.append(inst_arg(s, "argmin", len(s) > 2))
            out.append(inst_arg(s, "argmax", False))
    # zero-length chunks inside a multi-level tree
    out.append(inst_mean((2, 0, 1), True))
    out.append(inst_moment((2, 0, 1), 2, 0, True))
    out.append(inst_moment((0, 2, 2), 2, 1, True))
    out.append(inst_arg_nd(((2,), (1, 1, 1)), "argmin", two_level=True))
    out.append(inst_arg_nd(((2,), (1, 1, 1)), "argmax", two_level=True))
    # a zero-length chunk on the reduced axis (what x[:2:2] leaves behind)
    out.append(inst_arg((2, 0, 1), "argmin", True))
    out.append(inst_arg((1, 0), "argmax", False))
    out.append(inst_arg_nd(((2,), (1, 0, 1)), "argmax"))
    out.append(inst_tree_structure((2, 8), (0, 1), {0: 4, 1: 2}))
    out.append(inst_tree_structure((2, 8), (0, 1), {0: 2, 1: 4}))
    out.append(inst_tree_structure((3, 3), (0, 1), 4, keepdims=False))
    # unequal fan-ins: the axis with the most blocks finishes in one level, the other needs two (depth is the maximum)
    out.append(inst_tree_structure((5, 4), (0, 1), {0: 8, 1: 2}))
    out.append(inst_tree_structure((5, 4), (0, 1), {0: 8, 1: 2}, keepdims=False))
    out.append(inst_tree_structure((3, 5), (0, 1), {0: 2, 1: 8}, keepdims=False))
    out.append(inst_tree_structure((4, 2, 3), (0, 2), {0: 2, 2: 2}))
    out.append(inst_arg_nd(((2,), (1, 1)), "argmin"))
    # one block holds a slice that is NaN throughout (the fallback inside _nanarg*) next to a slice with a NaN before its extremum
    nan_at = {(0, 0), (0, 1), (1, 0), (2, 1), (2, 2)}
    out.append(inst_public_nanarg("nanargmax", ((3,), (2, 2)), nan_at, 1))
    out.append(inst_public_nanarg("nanargmin", ((3,), (2, 2)), nan_at, 1))
    out.append(inst_public_nanarg("nanargmax", ((2, 1), (2,)), {(0, 0)}, 0))
    out.append(inst_public_topk((2, 2), 2))
    out.append(inst_public_topk((2, 1), -2, split_every=2))
    out.append(inst_public_topk((2, 1), 5))  # more than there is
    out.append(inst_public_argtopk((2, 2), 2))
    out.append(inst_public_argtopk((2, 1), -2, split_every=2))
    out.append(inst_public_argtopk((2, 1), 3))  # exactly all there is
    for which in ("min", "max"):
        out.append(inst_public_extremum_nd(which, ((1, 0), (3,)), 0))   # an empty block along the reduced axis
        out.append(inst_public_extremum_nd(which, ((1, 0), (2, 1)), 1))  # an empty block along the kept axis
        out.append(inst_public_extremum_nd(which, ((2,), (1, 0, 1)), 1, split_every=2))
    for which in ("min", "max"):
        out.append(inst_public_extremum(which, (1, 2), 2))
        out.append(inst_public_extremum(which, (1, 1, 0, 0), 2))  # a whole group of the tree is empty
        out.append(inst_public_extremum(which, (0, 2, 0), 2))
        if not q:
            out.append(inst_public_extremum(which, (2, 0, 0, 1, 0), 2))
            out.append(inst_public_extremum(which, (1, 0, 0, 0, 2), {0: 3}))
    out.append(inst_arg_nd(((1, 1), (2,)), "argmax"))
    out.append(inst_arg_nd(((1, 1), (1, 1)), "argmin"))
    out.append(inst_moment((2, 1, 2), 3, 0, True))
    if not q:
        out.append(inst_moment((2, 2), 3, 0, False))  # (cubic NRA: z3 answers unknown on it when the machine is loaded)
        # (order 4 -- quartic real arithmetic -- is answered `unknown` by z3 on a loaded machine: outside both tiers, stated)
        out.append(inst_moment((2, 2, 2), 3, 1, True))
    return out
