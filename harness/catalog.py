"""Catalogue of small array programs over symbolic-size sources, shared by C01-C04 and C08.

A *program* is built twice from the same description: as a tree of symbolic nodes of the
repository's own expression classes (symx.nodes) and as the NumPy meaning on symbolic arrays
(symx.sarr).  The tree is lowered with dask's own ``lower_completely`` driver calling the
repository's ``_lower`` methods, its real ``_layer`` graphs are executed on symbolic arrays, and
the harnesses state their obligations on the outcome:

  values (C01/C02): assembled blocks == NumPy meaning at a skolem index
  shapes (C03):     every block has the advertised chunk shape; shape == NumPy's shape
  keys   (C04):     the layer defines exactly the (name, *block index) grid, every referenced key exists, no cycle
"""
from __future__ import annotations

import itertools
import operator

import numpy as np
import z3

from symx import core
from symx.graph import Runner, grid, layer_keys_ok, run_blocks
from symx.oracle import AND, EQ, IMPLIES, NOT, OR, cumsum0
from symx.sarr import prefix_lemmas, BoundsLog, SArr, assemble, concatenate_nested, leaf, same_array
from symx.world import SHIM_LIST, SymNp

from .common import Cfg, collect_graph, lower_tree, world

EX = "dask_array._expr"
BW = "dask_array._blockwise"
CU = "dask_array._core_utils"
RC = "dask_array._rechunk"
FA = "dask_array.io._from_array"
IOB = "dask_array.io._base"
SB = "dask_array.slicing._basic"
SU = "dask_array.slicing._utils"
CO = "dask_array._collection"
NC = "dask_array._new_collection"
TR = "dask_array.manipulation._transpose"
XP = "dask_array.manipulation._expand"
SQ = "dask_array.manipulation._squeeze"
BT = "dask_array._broadcast_to"
CC = "dask_array.stacking._concatenate"
SK = "dask_array.stacking._stack"
RD = "dask_array.reductions._reduction"
RCM = "dask_array.reductions._common"
CHK = "dask_array._chunk"
SHF = "dask_array._shuffle"
VIX = "dask_array.slicing._vindex"
ARG = "dask_array.creation._arange"
DB = "dask.blockwise"
MT = "dask_array._materialize"
MODS = [MT, "dask_array.io._store", "dask_array.creation._eye", "dask_array.slicing._blocks", "dask_array.slicing._setitem", "dask_array.core._blockwise_funcs", "dask_array.core._conversion", EX, BW, CU, RC, FA, IOB, SB, SU, "dask_array.slicing", CO, NC, TR, XP, SQ, BT, CC, SK, RD, RCM, SHF, VIX, ARG, "dask_array._overlap", "dask_array._map_blocks", "dask_array._chunk", "dask.layers", "dask_array.reductions._sliding_window", "dask_array.manipulation._reshape", "dask_array.reductions._arg_reduction", "dask_array.creation._diag", "dask_array.creation._diagonal", "dask_array.routines._unique", "dask_array.creation._ones_zeros", "dask_array.creation._utils", "dask_array.routines._topk", "dask_array.io._from_graph", "dask_array.manipulation._roll", "dask_array.manipulation._flip", "dask_array.creation._tile", "dask_array.creation._pad", "dask_array.creation._repeat", "dask_array.routines._diff", "dask_array.reductions._cumulative", "dask_array.routines._where", "dask_array.stacking._block", "dask_array.stacking._simple", "dask_array.routines._insert_delete", "dask_array.routines._triangular", "dask_array.routines._outer", "dask_array._ufunc", "dask_array.routines._gradient", DB]
STUBS = SHIM_LIST + [
    "concatenate3 -> the array model's nested concatenation (called by the repository's own finalize and as a block kernel)",
    "expression classes -> symx.nodes (real methods on cloned code; constructors/tokenize bypassed, structural names); the "
    "Array collection class -> subclass with cloned methods",
    "sources -> symbolic FromArray nodes whose blocks are NumPy slices of a symbolic array (uninterpreted element function)",
    "lowering -> dask's own Expr.lower_completely driver over the repository's _lower methods; plan_rechunk -> [target]",
    "block kernels -> NumPy meaning on symbolic arrays (getitem, concatenate3, np.transpose/expand_dims/broadcast_to, "
    "operator.add/sub/neg, other ufuncs uninterpreted)",
    "set/dict displays in dask_array._expr, dask_array._core_utils, dask.blockwise desugared (chunk unification on symbolic sizes)",
]


class _Np(SymNp):
    @staticmethod
    def asarray(x, *a, **k):
        return x if isinstance(x, SArr) else np.asarray(x, *a, **k)

    asanyarray = asarray


class IdxArray(np.ndarray):
    """index arrays inside Shuffle._layer: .astype(<int dtype>) is the identity while entries are symbolic (a block-local
    position is 'global index minus a symbolic block start'; forcing it through int() would enumerate the sizes)"""

    def astype(self, dtype, *a, **k):
        if self.dtype == object and any(isinstance(v, core.SymInt) for v in self.ravel().tolist()):
            return self
        return np.ndarray.astype(self, dtype, *a, **k)


class _ShuffleNp(SymNp):
    @staticmethod
    def min_scalar_type(x):
        return np.dtype("int64") if isinstance(x, core.SymInt) else np.min_scalar_type(x)

    @staticmethod
    def array(x, *a, **k):
        return np.array(x, *a, **k).view(IdxArray)


class _Warn:
    def warn(self, *a, **k):
        pass


def _meta_from_array(x, ndim=None, dtype=None):
    """metas stay real (empty) NumPy arrays: a source node rebuilt by a rewrite derives its meta from the symbolic source array"""
    from dask_array._utils import meta_from_array

    if isinstance(x, SArr):
        x[tuple(slice(0, 0, None) for _ in range(x.ndim))]  # the selection the real function requests (empty; noted under C29)
        return np.empty((0,) * (x.ndim if ndim is None else ndim), dtype=dtype or x.dtype)
    return meta_from_array(x, ndim=ndim, dtype=dtype)


class RecArr(SArr):
    """a source array that notes every selection requested from it while RECORDING is on (C29)"""

    reads = []

    def __getitem__(self, index):
        out = SArr.__getitem__(self, index)
        if RECORDING[0]:
            RecArr.reads.append(("source " + str(getattr(self, "_symx_token", "?")), tuple(out.shape)))
        return out


RECORDING = [False]   # on while a program is being constructed / inspected / optimized (not while its graph is executed)
CALLS = []            # (function name, shapes of its array arguments) of user block functions called while RECORDING


def user_kernel(f):
    """mark a harness function as the user's block function (the graph runner calls it on symbolic blocks) and note the
    calls made to it outside graph execution"""
    import functools

    @functools.wraps(f)
    def wrapper(*a, **k):
        if RECORDING[0]:
            # (a real one-element ndarray is dask's dtype-inference dummy, apply_infer_dtype's np.ones((1,)*ndim): noted apart)
            CALLS.append((f.__name__, [tuple(x.shape) for x in a if hasattr(x, "shape") and not (isinstance(x, np.ndarray) and x.size == 1)]))
        return f(*a, **k)

    wrapper.__symx_kernel__ = True
    return wrapper


class _BlocksNp:
    def __getattr__(self, k):
        return getattr(np, k)

    @staticmethod
    def array(x, *a, **k):
        from symx.world import _ShimIndexed

        if isinstance(x, (tuple, list)) and any(isinstance(v, (core.SymInt, core.SymReal)) for v in x):
            out = np.empty(len(x), dtype=object)
            out[:] = list(x)
            return out.view(_ShimIndexed)
        return np.array(x, *a, **k).view(_ShimIndexed)

    @staticmethod
    def arange(*a, **k):
        from symx.world import _ShimIndexed

        return np.arange(*a, **k).view(_ShimIndexed)


CUR = [None]  # the engine (symbolic or concrete replay) of the running instance body, for user kernels that state obligations


def W(E, key="catalog"):
    CUR[0] = E
    cfg = Cfg({"array.rechunk.method": "tasks", "array.unify-chunks-policy": "auto", "array.unify-chunks-limit": None,
               "array.slicing.split-large-chunks": None, "array.chunk-size-tolerance": 1.25})
    w = world(key, E.symbolic, MODS, nodes=True, desugar=(EX, CU, DB),
              extra=dict(config=cfg, warnings=_Warn(), plan_rechunk=lambda old, new, *a, **k: [new], meta_from_array=_meta_from_array,
                         concatenate3=concatenate_nested),
              clone_classes=[(CO, "Array")])
    if E.symbolic and not isinstance(w.ns[SHF].get("np"), _ShuffleNp):
        w.ns[SHF]["np"] = _ShuffleNp()
    # VIndexArray._layer plans with NumPy index arrays, all concrete: its `slice(...)` objects index real ndarrays
    w.ns[VIX]["slice"] = slice
    # Blocks.chunks / _layer select block sizes and block numbers with np.array(c)[idx] / np.arange(n)[idx], the index
    # holding the slice objects normalize_index built: arrays that understand those
    if not isinstance(w.ns["dask_array.slicing._blocks"].get("np"), _BlocksNp):
        w.ns["dask_array.slicing._blocks"]["np"] = _BlocksNp()
    w.space.reset()
    w.ns[MT]["_LOWER_CACHE"] = {}  # the process-wide lowering cache must not leak between paths / instances
    # unaligned operands are unified under 'coarse' here (no nonlinear cost model: sizes stay unbounded); the default
    # 'auto' policy is exercised by the instances that bound their sizes, and all three policies by C17
    for ns in w.ns.values():
        if isinstance(ns.get("config"), Cfg):
            ns["config"].d["array.unify-chunks-policy"] = "coarse"
    return w


def set_policy(w, policy):
    for ns in w.ns.values():
        if isinstance(ns.get("config"), Cfg):
            ns["config"].d["array.unify-chunks-policy"] = policy


class Prog:
    """a node together with its NumPy meaning and the graph of everything below it"""

    def __init__(self, node, ref, dsk, site=None):
        self.node, self.ref, self.dsk = node, ref, dsk
        self.site = site  # call site under which obligations of this program are reported (known_findings.txt keys on it)


def source(w, E, tag, blocks, lo=1, shape=None, hi=None, chunks=None, dtype="f8"):
    """FromArray-like source: symbolic chunks (or given `shape` per axis as sums), blocks = NumPy slices of a leaf"""
    import dask_array.io._from_array as FAm

    given = chunks
    chunks = []
    for a, m in enumerate(blocks):
        if given is not None and given[a] is not None:
            chunks.append(tuple(given[a]))  # the very same size terms as another operand: aligned by construction
            continue
        c = tuple(E.int(f"{tag}{a}_{i}", lo, hi) for i in range(m))
        if shape is not None and shape[a] is not None:
            E.assume(sum(c) == shape[a])
        chunks.append(c)
    chunks = tuple(chunks)
    arr = leaf(tag, tuple(sum(c) for c in chunks), dtype=dtype, cls=RecArr)
    meta = np.empty((0,) * len(blocks), dtype=dtype)
    node = w.space.make(FAm.FromArray, arr, chunks, _symx_attrs=dict(_meta=meta, chunks=chunks, _name=tag))
    cs = [cumsum0(c) for c in chunks]
    dsk = {}
    was, RECORDING[0] = RECORDING[0], False  # (the harness' own preparation of the blocks is not the library reading data)
    try:
        for g in itertools.product(*[range(m) for m in blocks]):
            dsk[(tag,) + g] = arr[tuple(slice(c[i], c[i + 1]) for c, i in zip(cs, g))]
    finally:
        RECORDING[0] = was
    node.__dict__["_symx_layer"] = dsk
    # the NumPy meaning of programs is computed on a plain (non-recording) alias of the source
    ref = SArr(arr.shape, arr._at, arr.dtype, arr.log, arr.kind, arr.struct)
    ref._symx_token = arr._symx_token
    return Prog(node, ref, dsk)


def _layers(node, dsk=None, seen=None):
    """graph of a lowered tree: sources contribute their preset blocks, every other node its real _layer()"""
    from dask._expr import Expr

    dsk = {} if dsk is None else dsk
    seen = set() if seen is None else seen
    if node._name in seen:
        return dsk
    seen.add(node._name)
    pre = node.__dict__.get("_symx_layer")
    if pre is not None:
        dsk.update(pre)
        return dsk
    for op in node.dependencies():
        _layers(op, dsk, seen)
    layer = node._layer()
    from dask._task_spec import DataNode

    # content-addressed data nodes (e.g. a shuffle's sorter / taker arrays) may be emitted by several layers
    dup = {k for k in set(layer) & set(dsk) if not (isinstance(layer[k], DataNode) and isinstance(dsk[k], DataNode))}
    if dup and type(node).__dict__.get("_symx_real", type(node)).__name__ == "SetItem":
        # SetItem._layer embeds the graphs of its value / index collections, which are also its dependencies: the
        # definitions already collected stand
        layer = {k: t for k, t in layer.items() if k not in dup}
        dup = set()
    if dup:
        raise core.HarnessError(f"layer of {node._name} redefines keys {sorted(dup, key=repr)[:3]}")
    dsk.update(layer)
    return dsk


def evaluate(E, node, label, check_shapes=True, check_keys=True):
    """lower, build the graph from the real layers, execute -> (whole SArr, lowered node, graph, runner)"""
    low = lower_tree(node)
    dsk = _layers(low)
    chunks = low.chunks
    if check_keys:
        layer_keys_ok(E, dsk, low._name, tuple(len(c) for c in chunks), label=f"{label}-keys")
    whole, r = run_blocks(E, dsk, low._name, chunks, label=f"{label}-blocks", check_shapes=check_shapes)
    return whole, low, dsk, r


# ------------------------------------------------------------------ program builders (node + NumPy meaning)


def p_transpose(w, p, axes):
    import dask_array.manipulation._transpose as M

    return Prog(w.space.make(M.Transpose, p.node, tuple(axes)), p.ref.transpose(axes), p.dsk)


def p_expand(w, p, axes):
    import dask_array.manipulation._expand as M

    return Prog(w.space.make(M.ExpandDims, p.node, tuple(axes)), p.ref.expand_dims(tuple(axes)), p.dsk)


def p_broadcast(w, p, lead):
    """broadcast_to with `lead` new leading axes of symbolic length (one chunk each)"""
    import dask_array._broadcast_to as M

    E = core._eng() if core.ENGINE is not None else None
    new = tuple(lead)
    shape = new + tuple(p.node.shape)
    chunks = tuple((n,) for n in new) + tuple(p.node.chunks)
    return Prog(w.space.make(M.BroadcastTo, p.node, shape, chunks, None), p.ref.broadcast_to(shape), p.dsk)


def p_slice(w, p, raw, allow=True):
    """the public path: Array.__getitem__ (normalize_index -> slice_array)"""
    E = core._eng() if core.ENGINE is not None else None
    if E is not None:
        E.assume(ints_in_range(raw, p.node.shape))  # out-of-range integers raise (C12's subject)
    coll = w.fn(NC, "new_collection")(p.node)
    out = coll[raw]
    ref = p.ref[raw]
    lem = getattr(p.ref, "lemmas", None)
    if lem is not None and isinstance(ref, SArr):
        # the sliced reference reads the unsliced one at start + step * i: its lemmas are the unsliced ones at those positions
        src_shape = p.ref.shape
        entries = [r for r in raw if r is not None] + [slice(None)] * (len(src_shape) - len([r for r in raw if r is not None]))

        def sliced_lemmas(idx, entries=entries, src_shape=src_shape, lem=lem):
            pos, k = [], 0
            for r, n in zip(entries, src_shape):
                if hasattr(r, "start"):
                    start, _stop, step = core.slice_indices(r.start, r.stop, r.step, n)
                    pos.append(core._z(start) + core._z(step) * idx[k])
                    k += 1
                else:
                    pos.append(z3.If(core._z(r) < 0, core._z(r) + core._z(n), core._z(r)))
            return lem(pos)

        if not any(r is None for r in raw):
            ref.lemmas = sliced_lemmas
    return Prog(out.expr, ref, p.dsk)


def p_rechunk(w, p, chunks):
    out = p.node.rechunk(chunks)
    return Prog(out, p.ref, p.dsk)


def scaled(x, factor=1.0):
    """an element-wise function whose keyword argument changes the values (stands for round(decimals=), clip(min=) ...)"""
    return x * factor


scaled = user_kernel(scaled)


def _carry_lemmas(ref, operands):
    """operands of the same shape share the result's index space: their prefix-function lemmas apply to it as they are"""
    carried = [r.lemmas for r in operands if isinstance(r, SArr) and getattr(r, "lemmas", None) is not None
               and isinstance(ref, SArr) and tuple(map(str, r.shape)) == tuple(map(str, ref.shape))]
    if carried and getattr(ref, "lemmas", None) is None:
        ref.lemmas = lambda idx: [f for lem in carried for f in lem(idx)]


def p_elemwise(w, op, *ps, _dtype=None, _where=None, _out=None, **user_kwargs):
    """_where / _out: Progs for ufunc(where=mask, out=o) -- the result is where(mask != 0, op(...), o)"""
    import dask_array._blockwise as M

    if _where is not None:
        ps = tuple(ps)
        node = w.space.make(M.Elemwise, op, _dtype, None, _where.node, _out.node, dict(user_kwargs) or None,
                            *[q.node if isinstance(q, Prog) else q for q in ps])
        refs = [q.ref if isinstance(q, Prog) else q for q in ps]
        val = getattr(op, "__wrapped__", op)(*refs, **user_kwargs)
        shape = node.shape
        vb, mb, ob = val.broadcast_to(shape), _where.ref.broadcast_to(shape), _out.ref.broadcast_to(shape)
        ref = SArr(shape, lambda idx: z3.If(mb._at(idx) != 0, vb._at(idx), ob._at(idx)))
        dsk = {}
        for q in ps + (_where, _out):
            if isinstance(q, Prog):
                dsk.update(q.dsk)
        return Prog(node, ref, dsk)
    node = w.space.make(M.Elemwise, op, _dtype, None, True, None, dict(user_kwargs) or None, *[q.node if isinstance(q, Prog) else q for q in ps])
    refs = [q.ref if isinstance(q, Prog) else q for q in ps]
    ref = getattr(op, "__wrapped__", op)(*refs, **user_kwargs)  # (the reference is not a call the library makes)
    _carry_lemmas(ref, refs)
    dsk = {}
    for q in ps:
        if isinstance(q, Prog):
            dsk.update(q.dsk)
    return Prog(node, ref, dsk)


def p_concat(w, ps, axis):
    import dask_array.stacking._concatenate as M

    node = w.space.make(M.Concatenate, ps[0].node, axis, ps[0].node._meta, *[q.node for q in ps[1:]])
    dsk = {}
    for q in ps:
        dsk.update(q.dsk)
    return Prog(node, np.concatenate([q.ref for q in ps], axis=axis), dsk)


def p_stack(w, ps, axis):
    import dask_array.stacking._stack as M

    meta = np.empty((0,) * (ps[0].node.ndim + 1))
    node = w.space.make(M.Stack, ps[0].node, axis, meta, *[q.node for q in ps[1:]])
    dsk = {}
    for q in ps:
        dsk.update(q.dsk)
    return Prog(node, np.stack([q.ref for q in ps], axis=axis), dsk)


def p_sum(w, p, axis, keepdims=False, split_every=None):
    """the public reduction API: reductions._common.sum -> reduction() -> Sum node (lowered to Blockwise + PartialReduce)"""
    coll = w.fn(NC, "new_collection")(p.node)
    out = w.fn(RCM, "sum")(coll, axis=axis, keepdims=keepdims, split_every=split_every, dtype="f8")
    return Prog(out.expr, p.ref.reduce_axis(axis, "add", keepdims=keepdims), p.dsk)


def p_blockwise_T(w, E, p):
    """a generic Blockwise whose argument index order is a permutation of the output's: blockwise(np.transpose, 'ji', x, 'ij')"""
    coll = w.fn(NC, "new_collection")(p.node)
    out = w.fn("dask_array.core._blockwise_funcs", "blockwise")(np.transpose, "ji", coll, "ij", dtype="f8")
    return Prog(out.expr, p.ref.transpose((1, 0)), p.dsk)


def _twice(a, b):
    """user block function for blockwise(adjust_chunks=2n): the block sum, twice in a row"""
    s_ = a + b
    return np.concatenate([s_, s_], axis=0)


_twice = user_kernel(_twice)


def p_blockwise_twice(w, E, a, b):
    """blockwise(f, 'i', a, 'i', b, 'i', adjust_chunks={'i': 2n}) over operands chunked differently (f doubles every block):
    block j of the result is the sum over the j-th block of the unified layout, twice -- the layout the result advertises"""
    ca, cb = w.fn(NC, "new_collection")(a.node), w.fn(NC, "new_collection")(b.node)
    out = w.fn("dask_array.core._blockwise_funcs", "blockwise")(_twice, "i", ca, "i", cb, "i", adjust_chunks={"i": lambda n: 2 * n}, dtype="f8",
                                                                meta=np.empty((0,)))
    S = a.ref + b.ref
    pos, parts = 0, []
    for c2 in out.chunks[0]:
        c = c2 // 2
        parts += [S[pos:pos + c], S[pos:pos + c]]
        pos += c
    dsk = dict(a.dsk)
    dsk.update(b.dsk)
    return Prog(out.expr, concatenate_nested(parts), dsk)


def _partial_dot(a, b):
    """user block function of a hand-written contraction: one partial row-dot per block of the contracted axis"""
    return (a * b).sum(axis=1, keepdims=True)


_partial_dot = user_kernel(_partial_dot)


def p_contract_rows(w, E, a, b):
    """blockwise(f, 'ij', a, 'ij', b, 'j', adjust_chunks={'j': 1}).sum(axis=1): the way matmul / tensordot / einsum contract --
    one partial result per block of the contracted axis j, summed afterwards -- so the intermediate's very shape follows the
    unified layout of j; the total is sum_j a[i, j] * b[j] whatever that layout is"""
    ca, cb = w.fn(NC, "new_collection")(a.node), w.fn(NC, "new_collection")(b.node)
    part = w.fn("dask_array.core._blockwise_funcs", "blockwise")(_partial_dot, "ij", ca, "ij", cb, "j", adjust_chunks={"j": 1}, dtype="f8",
                                                                 meta=np.empty((0, 0)))
    total = (a.ref * b.ref).reduce_axis(1, "add")  # (the same element-wise product the kernel forms, summed over the whole axis)
    dsk = dict(a.dsk)
    dsk.update(b.dsk)
    return Prog(part.expr, None, dsk), total


def _contract_then(w, E, raw):
    a = source(w, E, "a", (2, 3), chunks=[None, (1, 1, 2)])
    b = source(w, E, "b", (2,), chunks=[(3, 1)])
    set_policy(w, "auto")
    part, total = p_contract_rows(w, E, a, b)
    sl = part.node if raw is None else w.fn(NC, "new_collection")(part.node)[raw].expr
    out = w.fn(RCM, "sum")(w.fn(NC, "new_collection")(sl), axis=1, dtype="f8")
    ref = total if raw is None else total[raw[0]]
    return Prog(out.expr, ref, part.dsk)


def _rev_block(b):
    """a user block function that is not element-wise: the block, reversed along axis 0"""
    return b[::-1]


_rev_block = user_kernel(_rev_block)

MAP_BLOCKS_TAKE_SITE = "map_blocks:take-pushed-through-a-function-that-is-not-element-wise"


def _at_site(prog, site):
    prog.site = site
    return prog


def p_map_rev(w, E, p, site=None):
    """map_blocks(lambda b: b[::-1], x): every block of the layout x advertises, reversed in place"""
    coll = w.fn(NC, "new_collection")(p.node)
    chunks = tuple(coll.chunks[0])
    out = w.fn("dask_array._map_blocks", "map_blocks")(_rev_block, coll, dtype=np.dtype("f8"), meta=np.empty((0,) * len(coll.chunks)))
    b0 = cumsum0(chunks)
    ref = concatenate_nested([p.ref[b0[j]:b0[j + 1]][::-1] for j in range(len(chunks))])
    return Prog(out.expr, ref, dict(p.dsk), site=site)


def p_arange(w, E, step, blocks):
    """arange(start, start + n*step, step) with symbolic start and chunk sizes; values are start + p*step"""
    import z3
    import dask_array.creation._arange as M
    from symx.core import SymReal, _z

    start = E.int("start")
    chunks = tuple(E.int(f"a{i}", 1) for i in range(blocks))
    n = sum(chunks)
    stop = start + n * step
    node = w.space.make(M.Arange, start, stop, step, (chunks,), None, np.dtype("i8"), None,
                        _symx_attrs=dict(_meta=np.empty((0,), dtype="i8")))
    a = SymReal._r(start)
    ref = SArr((n,), lambda idx, a=a: a + step * z3.ToReal(idx[0]))
    return Prog(node, ref, {})


def p_sliding_sum(w, E, p, axis, keepdims=False, tag="window"):
    """sliding_window_view(x, W, axis).sum(-1) through the public functions; W in 2..3 (the rewrite reads int(W))"""
    import z3
    from symx.core import _z

    W_ = int(E.int(tag, 2, 3))  # forks: the rewrite reads int(W) and the kernel sums a window-long axis
    n = p.node.shape[axis]
    E.assume(n >= W_)
    coll = w.fn(NC, "new_collection")(p.node)
    view = w.fn("dask_array._overlap", "sliding_window_view")(coll, W_, axis=axis)
    out = w.fn(RCM, "sum")(view, axis=-1, keepdims=keepdims, dtype="f8")
    X = p.ref
    shape = list(X.shape)
    shape[axis] = shape[axis] - W_ + 1

    def at(idx):
        tot = 0
        for k in range(W_):
            pos = list(idx[:X.ndim])
            pos[axis] = pos[axis] + k
            tot = tot + X._at(tuple(pos))
        return tot

    ref = SArr(tuple(shape) + ((1,) if keepdims else ()), at)
    # the banded kernels scan (prefix functions of the source); tie them to the source at the compared position
    ref.lemmas = lambda idx: prefix_lemmas(X, axis, idx, W_)
    return Prog(out.expr, ref, p.dsk)


def p_vindex(w, E, p, points):
    """x.vindex[...] through the public accessor with an integer array on every axis named in `points`
    ({axis: [entries]}; the entries are decision variables enumerated by forking -- the planner sorts and groups them with
    NumPy array code -- and the indexed axes have concrete chunk sizes); full slices elsewhere.  vindex puts the points
    axis first, whatever NumPy's placement rule says."""
    nd = len(p.node.chunks)
    key = tuple([int(v) for v in points[a]] if a in points else slice(None) for a in range(nd))
    coll = w.fn(NC, "new_collection")(p.node)
    out = coll.vindex[key]
    rest = [a for a in range(nd) if a not in points]
    n = max(len(v) for v in points.values())
    X = p.ref
    shape = (n,) + tuple(X.shape[a] for a in rest)

    def at(idx):
        pos = [None] * nd
        for a in range(nd):
            if a in points:
                vals = [int(v) for v in points[a]]
                e = z3.IntVal(vals[-1])
                for j in range(len(vals) - 2, -1, -1):
                    e = z3.If(idx[0] == j, z3.IntVal(vals[j]), e)
                pos[a] = e
            else:
                pos[a] = idx[1 + rest.index(a)]
        return X._at(tuple(pos))

    return Prog(out.expr, SArr(shape, at), p.dsk)


def _vindex_prog(w, E, kinds, npts, fixed=None):
    """kinds per axis: 's' (one symbolic-size block... two blocks), or a tuple of concrete chunk sizes for an indexed axis"""
    blocks = tuple(2 if k == "s" else len(k) for k in kinds)
    src = source(w, E, "x", blocks, chunks=[None if k == "s" else tuple(k) for k in kinds])
    points = {}
    for a, k in enumerate(kinds):
        if k == "s":
            continue
        size = sum(k)
        points[a] = [(fixed or {}).get((a, j), None) for j in range(npts)]
        points[a] = [int(E.int(f"pt{a}_{j}", 0, size - 1)) if v is None else v for j, v in enumerate(points[a])]
    return p_vindex(w, E, src, points)


def p_sliding_view(w, E, p, windows, axes):
    """sliding_window_view(x, windows, axes) alone (windows concrete; an axis may be named more than once, as NumPy allows)"""
    need = {}
    for a, win in zip(axes, windows):
        need[a] = need.get(a, 0) + win - 1
    for a, d in need.items():
        E.assume(p.node.shape[a] >= d + 1)
    coll = w.fn(NC, "new_collection")(p.node)
    view = w.fn("dask_array._overlap", "sliding_window_view")(coll, tuple(windows), axis=tuple(axes))
    X = p.ref
    shape = list(X.shape)
    for a, d in need.items():
        shape[a] = shape[a] - d
    nd = X.ndim

    def at(idx):
        pos = list(idx[:nd])
        for k, a in enumerate(axes):
            pos[a] = pos[a] + idx[nd + k]
        return X._at(tuple(pos))

    return Prog(view.expr, SArr(tuple(shape) + tuple(windows), at), p.dsk)


def p_diag(w, E, p, k=0):
    """da.diag(x, k) through the public function (1-d: the matrix with x on its diagonal; 2-d: the k-th diagonal)"""
    coll = w.fn(NC, "new_collection")(p.node)
    out = w.fn("dask_array.creation._diag", "diag")(coll, k)
    return Prog(out.expr, np.diag(p.ref, k), p.dsk)


def _with_block_info(x, block_info=None):
    """user function for map_blocks: adds the global start offset (along every axis) that block_info reports for the
    block -- so a block fed from a layout other than the one the payload describes changes the values -- and obliges the
    block it is given to have the extent the payload describes (input 0 and output)"""
    if block_info is None:
        return x
    E = CUR[0]
    loc = block_info[0]["array-location"]
    out = block_info[None]
    conds = [x.shape[k] == (hi - lo) for k, (lo, hi) in enumerate(loc)]
    conds += [x.shape[k] == out["chunk-shape"][k] for k in range(len(out["chunk-shape"]))]
    conds += [EQ(tuple(out["array-location"][k]), tuple(loc[k])) for k in range(len(loc))]
    E.ensure("block-has-the-extent-block_info-describes", AND(*conds))
    off = 0
    for lo, _hi in loc:
        off = off + lo
    return x + off


_with_block_info = user_kernel(_with_block_info)


def _with_block_id(x, block_id=None):
    if block_id is None:
        return x
    off = 0
    for k, b in enumerate(block_id):
        off = off + (k + 1) * b
    return x + off


_with_block_id = user_kernel(_with_block_id)


def plus_one(b):
    return b + 1


def times_three(b):
    return b * 3


plus_one = user_kernel(plus_one)
times_three = user_kernel(times_three)


def p_map(w, p, f):
    """map_blocks(f, x) with a plain element-wise user function: an opaque blockwise node the optimizer cannot see through"""
    coll = w.fn(NC, "new_collection")(p.node)
    nd = len(coll.chunks)
    out = w.fn("dask_array._map_blocks", "map_blocks")(f, coll, dtype=np.dtype("f8"), meta=np.empty((0,) * nd))
    return Prog(out.expr, getattr(f, "__wrapped__", f)(p.ref), p.dsk)  # (the reference is not a call the library makes)


def p_map2(w, a, b, op=np.add):
    """map_blocks(op, a, b): two array inputs, no alignment (broadcasting of single-block / length-1 axes)"""
    ca, cb = w.fn(NC, "new_collection")(a.node), w.fn(NC, "new_collection")(b.node)
    nd = max(len(ca.chunks), len(cb.chunks))
    out = w.fn("dask_array._map_blocks", "map_blocks")(op, ca, cb, dtype=np.dtype("f8"), meta=np.empty((0,) * nd))
    dsk = dict(a.dsk)
    dsk.update(b.dsk)
    ref = op(a.ref, b.ref)
    _carry_lemmas(ref, (a.ref, b.ref))
    return Prog(out.expr, ref, dsk)


def _map_blocks_with_column(w, E):
    """map_blocks(np.add, x, col): col has the rows' chunks and one column (it broadcasts along x's last axis)"""
    x = source(w, E, "x", (2, 2))
    col = source(w, E, "col", (2, 1), chunks=[x.node.chunks[0], (1,)])
    return p_map2(w, x, col)


def _shared_through_two_permutations(w, E):
    """a shared opaque node reached along two paths with different axis permutations (cube with the same chunks on every axis)"""
    c = source(w, E, "c", (2,)).node.chunks[0]
    x = source(w, E, "x", (2, 2, 2), chunks=[c, c, c])
    y = p_map(w, x, plus_one)
    p1 = p_transpose(w, p_map(w, p_transpose(w, y, (1, 2, 0)), times_three), (0, 2, 1))
    p2 = p_transpose(w, y, (2, 1, 0))
    return p_elemwise(w, operator.add, p1, p2)


def _with_block_info2(a, b, block_info=None):
    """two inputs of different rank under drop_axis=0: a arrives with axis 0 concatenated, b is 1-d along a's last axis; every
    input block must have the extent its own block_info entry reports; the value is a.sum(0) + b plus the reported start of b"""
    if block_info is None:
        return a.sum(axis=0) + b
    E = CUR[0]
    conds = []
    for i, blk in ((0, a), (1, b)):
        loc = block_info[i]["array-location"]
        conds += [len(loc) == blk.ndim] + [blk.shape[k] == (hi - lo) for k, (lo, hi) in enumerate(loc)][:blk.ndim]
    out = block_info[None]
    conds += [(out["array-location"][0][1] - out["array-location"][0][0]) == b.shape[0]]
    E.ensure("blocks-have-the-extent-block_info-describes", AND(*conds))
    return a.sum(axis=0) + b + block_info[1]["array-location"][0][0]


_with_block_info2 = user_kernel(_with_block_info2)


def p_map_blocks_drop(w, E, a, b):
    """map_blocks(f, a2d, b1d, drop_axis=0) with f reading block_info of both inputs"""
    ca, cb = w.fn(NC, "new_collection")(a.node), w.fn(NC, "new_collection")(b.node)
    out = w.fn("dask_array._map_blocks", "map_blocks")(_with_block_info2, ca, cb, drop_axis=0, dtype=np.dtype("f8"), meta=np.empty((0,)))
    cols = tuple(cb.chunks[0])
    bnd = cumsum0(cols)
    A, B = a.ref, b.ref
    col_sum = A.reduce_axis(0, "add")

    def at(idx):
        term = None
        for j in range(len(cols) - 1, -1, -1):
            val = core._z(bnd[j])
            term = val if term is None else z3.If(idx[0] < core._z(bnd[j + 1]), val, term)
        return col_sum._at(idx) + B._at(idx) + z3.ToReal(term)

    dsk = dict(a.dsk)
    dsk.update(b.dsk)
    return Prog(out.expr, SArr(B.shape, at), dsk)


def _two_rank_inputs(w, E):
    b = source(w, E, "b", (2,))
    a = source(w, E, "a", (2, 2), chunks=[None, b.node.chunks[0]])
    return p_map_blocks_drop(w, E, a, b)


def p_map_blocks(w, E, p, how="info"):
    """map_blocks(f, x) with f reading block_info (or block_id); the reference is written from the layout advertised *now*"""
    coll = w.fn(NC, "new_collection")(p.node)
    chunks = tuple(tuple(c) for c in coll.chunks)
    nd = len(chunks)
    f = _with_block_info if how == "info" else _with_block_id
    out = w.fn("dask_array._map_blocks", "map_blocks")(f, coll, dtype=np.dtype("f8"), meta=np.empty((0,) * nd))
    X = p.ref
    bounds = [cumsum0(c) for c in chunks]

    def at(idx):
        off = z3.IntVal(0)
        for k in range(nd):
            b = bounds[k]
            term = None
            for j in range(len(chunks[k]) - 1, -1, -1):
                val = core._z(b[j]) if how == "info" else z3.IntVal((k + 1) * j)
                term = val if term is None else z3.If(idx[k] < core._z(b[j + 1]), val, term)
            off = off + term
        return X._at(idx) + z3.ToReal(off)

    ref = SArr(X.shape, at)
    if getattr(X, "lemmas", None) is not None:
        ref.lemmas = X.lemmas  # same index space
    return Prog(out.expr, ref, p.dsk)


def p_blocks(w, E, p, index):
    """x.blocks[index] (concrete block index of ints / slices): the concatenation of the selected blocks of the layout x
    advertises when .blocks is taken"""
    coll = w.fn(NC, "new_collection")(p.node)
    chunks = tuple(tuple(c) for c in coll.chunks)
    # (BlockView.__getitem__ is exactly this call)
    out = w.fn(NC, "new_collection")(w.fn("dask_array.slicing._blocks", "blocks_getitem")(coll.expr, index))
    idx = index if isinstance(index, tuple) else (index,)
    idx = tuple(idx) + (slice(None),) * (len(chunks) - len(idx))
    sel = [list(range(len(c)))[slice(i, i + 1) if isinstance(i, int) else i] for c, i in zip(chunks, idx)]
    bnd = [cumsum0(c) for c in chunks]

    def nest(axis, pos):
        if axis == len(chunks):
            return p.ref[tuple(slice(bnd[k][j], bnd[k][j + 1]) for k, j in enumerate(pos))]
        return [nest(axis + 1, pos + (j,)) for j in sel[axis]]

    if any(not s_ for s_ in sel):
        ref = SArr(tuple(sum(c[j] for j in s_) for c, s_ in zip(chunks, sel)), lambda idx: z3.RealVal(0))  # (no elements)
    else:
        ref = concatenate_nested(nest(0, ()))
    return Prog(out.expr, ref, dict(p.dsk))


def _first_rows(b):
    """user function for map_blocks(chunks=1 per block): the first element of the block along axis 0"""
    return b[:1]


_first_rows = user_kernel(_first_rows)


MAP_BLOCKS_DRIFT_SITE = "map_blocks:shape-dependent-function-above-regridded-input"
MAP_BLOCKS_PAIRING_SITE = "map_blocks:two-inputs-above-regridded-input"


def p_map_first(w, E, p, site=None):
    """map_blocks(lambda b: b[:1], x, chunks=one row per block of x): one element per block of the layout x advertises when
    the call is made"""
    coll = w.fn(NC, "new_collection")(p.node)
    chunks = tuple(tuple(c) for c in coll.chunks)
    out = w.fn("dask_array._map_blocks", "map_blocks")(_first_rows, coll, chunks=((1,) * len(chunks[0]),) + chunks[1:], dtype=np.dtype("f8"),
                                                       meta=np.empty((0,) * len(chunks)))
    b0 = cumsum0(chunks[0])
    ref = concatenate_nested([p.ref[b0[j]:b0[j] + 1] for j in range(len(chunks[0]))]) if len(chunks) == 1 else None
    return Prog(out.expr, ref, dict(p.dsk), site=site)


def _add_concrete(w, E, cx, cy, policy="auto"):
    set_policy(w, policy)
    x = source(w, E, "x", (len(cx),), chunks=[tuple(cx)])
    y = source(w, E, "y", (len(cy),), chunks=[tuple(cy)])
    return p_elemwise(w, operator.add, x, y)


def _map2_over_sliding(w, E):
    """map_blocks(np.add, r, y) with r = sliding_window_view(x, W).sum(-1) over single-element chunks (advertised as one block,
    computed natively on the input's own chunks) and y chunked like r advertises: blocks are paired by position"""
    x = source(w, E, "x", (4,), chunks=[(1, 1, 1, 1)])
    r = p_sliding_sum(w, E, x, 0)
    y = source(w, E, "y", (len(r.node.chunks[0]),), chunks=[tuple(r.node.chunks[0])])
    out = p_map2(w, r, y)
    out.site = MAP_BLOCKS_PAIRING_SITE
    return out


def p_eye(w, E, N, chunks, M):
    """da.eye(N, chunks, M, k) with a symbolic diagonal offset k (the grid is concrete): ones exactly where column - row == k"""
    k = E.int("k", -N, M)
    out = w.fn("dask_array.creation._eye", "eye")(N, chunks=chunks, M=M, k=k)
    ref = SArr((N, M), lambda idx: z3.If(idx[1] - idx[0] == core._z(k), z3.RealVal(1), z3.RealVal(0)))
    return Prog(out.expr, ref, {})


def p_view(w, E, p, dtype, order="C"):
    """x.view(dtype, order): the bytes reinterpreted under another item size (shapes are modelled, content is an
    uninterpreted function of the elements it is made of)"""
    coll = w.fn(NC, "new_collection")(p.node)
    out = coll.view(dtype, order=order)
    X = p.ref
    ref = X.view(np.dtype(dtype)) if order == "C" else X.T.view(np.dtype(dtype)).T
    return Prog(out.expr, ref, p.dsk)


def p_pub(w, p, module, name, ref, *a, **k):
    """a public function/method of the repository applied to the collection over p (module=None: a method of Array)"""
    coll = w.fn(NC, "new_collection")(p.node)
    if module is None:
        out = getattr(coll, name)(*a, **k)
    else:
        out = w.fn(module, name)(coll, *a, **k)
    return Prog(out.expr, ref(p.ref), p.dsk)


def p_pub_many(w, ps, module, name, ref, *a, **k):
    colls = [w.fn(NC, "new_collection")(q.node) for q in ps]
    out = w.fn(module, name)(colls, *a, **k)
    dsk = {}
    for q in ps:
        dsk.update(q.dsk)
    return Prog(out.expr, ref([q.ref for q in ps]), dsk)


def p_gradient(w, E, p, axes, k, h=1):
    """da.gradient(x, h, axis=axes)[k]: the derivative along axes[k] (unit or scalar spacing, edge_order=1)"""
    coll = w.fn(NC, "new_collection")(p.node)
    outs = w.fn("dask_array.routines._gradient", "gradient")(coll, h, axis=tuple(axes))
    ref = np.gradient(p.ref, h, axis=axes[k])
    return Prog(outs[k].expr, ref, p.dsk)


def p_take(w, E, p, axis, index):
    """x[..., [i, j, ...], ...] through Array.__getitem__ (normalize_index -> slice_wrap_lists -> take -> Shuffle);
    the index values are concrete, the axis is long enough to hold them"""
    n = p.node.shape[axis]
    E.assume(n > max(index))
    raw = tuple(list(index) if a == axis else slice(None) for a in range(axis + 1))
    coll = w.fn(NC, "new_collection")(p.node)
    out = coll[raw]
    return Prog(out.expr, p.ref[raw], p.dsk)


def raw_index(E, spec, tag="k"):
    out = []
    for k, s in enumerate(spec):
        if s == "i":
            out.append(E.int(f"{tag}i{k}"))
        elif s == "n":
            out.append(None)
        else:
            out.append(E.slice(E.int(f"{tag}s{k}a") if s[0] else None, E.int(f"{tag}s{k}b") if s[1] else None, s[2]))
    return tuple(out)


def ints_in_range(raw, shape):
    from symx.oracle import int_in_range

    axes = [r for r in raw if r is not None]
    return AND(*[int_in_range(r, n) for r, n in zip(axes, shape) if not hasattr(r, "start")])


# programs that demonstrate a recorded finding are run only by the properties the finding is recorded under
ONLY_FOR = {"map_blocks(np.add,sliding_window_view(x[1,1,1,1],W).sum(-1),y)": ("C01", "C02"),
            "map_blocks(reverse,x[2,3])[[1,2,4]]": ("C02",)}


# program descriptions: name -> builder(w, E) -> Prog
def programs(tier):
    q = tier == "quick"
    F = (1, 1, None)
    P = {}

    def reg(name, fn, cost=1.0):
        P[name] = (fn, cost)

    reg("source2x2", lambda w, E: source(w, E, "x", (2, 2)))
    reg("transpose(x2x3)", lambda w, E: p_transpose(w, source(w, E, "x", (2, 3)), (1, 0)))
    reg("transpose(x2x1x2,(2,0,1))", lambda w, E: p_transpose(w, source(w, E, "x", (2, 1, 2)), (2, 0, 1)))
    reg("expand_dims(x2x2,(0,))", lambda w, E: p_expand(w, source(w, E, "x", (2, 2)), (0,)))
    reg("expand_dims(x2,(0,2))", lambda w, E: p_expand(w, source(w, E, "x", (2,)), (0, 2)))
    reg("broadcast_to(x2x2,(n,)+shape)", lambda w, E: p_broadcast(w, source(w, E, "x", (2, 2)), (E.int("lead", 1),)))
    reg("slice(x3)[a:b]", lambda w, E: p_slice(w, source(w, E, "x", (3,)), raw_index(E, (F,))), 2)
    reg("slice(x2x2)[a:b,i]", lambda w, E: p_slice(w, source(w, E, "x", (2, 2)), raw_index(E, (F, "i"))), 3)
    reg("slice(x2x2)[::-1,None,c:]", lambda w, E: p_slice(w, source(w, E, "x", (2, 2)), raw_index(E, ((0, 0, -1), "n", (1, 0, None)))), 3)
    reg("slice(x3,zero-width chunks allowed)[a:b:-1]", lambda w, E: p_slice(w, source(w, E, "x", (3,), lo=0), raw_index(E, ((1, 1, -1),))), 4)
    reg("slice(x3,zero-width chunks allowed)[::-2]", lambda w, E: p_slice(w, source(w, E, "x", (3,), lo=0), raw_index(E, ((0, 0, -2),))), 3)
    reg("slice(x3,zero-width chunks allowed)[a:b]", lambda w, E: p_slice(w, source(w, E, "x", (3,), lo=0), raw_index(E, (F,))), 3)
    reg("(x3+y3)(zero-width chunks allowed)", lambda w, E: _add_unaligned(w, E, (3,), (3,), "coarse", None, lo=0), 4)
    reg("rechunk(x2->3)", lambda w, E: _rechunk_prog(w, E, (2,), (3,)), 2)
    reg("rechunk(x2x2->1x3)", lambda w, E: _rechunk_prog(w, E, (2, 2), (1, 3)), 3)
    reg("x2+y2(aligned)", lambda w, E: _add_aligned(w, E, (2,)))
    reg("x2x2+y2x2(aligned)", lambda w, E: _add_aligned(w, E, (2, 2)))
    reg("x2+y3(unaligned)", lambda w, E: _add_unaligned(w, E, (2,), (3,)), 4)
    reg("x2+y3(unaligned,policy=auto,sizes<=5)", lambda w, E: _add_unaligned(w, E, (2,), (3,), "auto", 5), 6)
    reg("x2+y2(unaligned,policy=refine)", lambda w, E: _add_unaligned(w, E, (2,), (2,), "refine"), 4)
    reg("x2x2+y2(broadcast)", lambda w, E: _add_broadcast(w, E), 3)
    reg("x2x2+x2x2.T", lambda w, E: _add_transpose(w, E), 4)
    reg("x2x2+(-y2)(broadcast,fused chain)", lambda w, E: _add_broadcast_chain(w, E), 3)
    reg("(x2x3+y2x3).T", lambda w, E: p_transpose(w, _add_aligned(w, E, (2, 3)), (1, 0)), 3)
    reg("-x2", lambda w, E: p_elemwise(w, operator.neg, source(w, E, "x", (2,))))
    reg("x2*2.5", lambda w, E: p_elemwise(w, operator.mul, source(w, E, "x", (2,)), 2.5))
    reg("concatenate([x2,y3],0)", lambda w, E: p_concat(w, [source(w, E, "x", (2,)), source(w, E, "y", (3,))], 0))
    reg("concatenate([x2x2,y2x1],1)", lambda w, E: _concat_axis1(w, E), 2)
    reg("stack([x2,y2],0)", lambda w, E: _stack_aligned(w, E, 0))
    reg("stack([x2,y2],1)", lambda w, E: _stack_aligned(w, E, 1))
    reg("(x2+y2)[a:b]", lambda w, E: p_slice(w, _add_aligned(w, E, (2,)), raw_index(E, (F,))), 3)
    reg("transpose(x2x2)[a:b,i]", lambda w, E: p_slice(w, p_transpose(w, source(w, E, "x", (2, 2)), (1, 0)), raw_index(E, (F, "i"))), 4)
    reg("concatenate([x2,y2],0)[a:b]", lambda w, E: p_slice(w, p_concat(w, [source(w, E, "x", (2,)), source(w, E, "y", (2,))], 0), raw_index(E, (F,))), 4)
    reg("rechunk(x2->2)[a:b]", lambda w, E: p_slice(w, _rechunk_prog(w, E, (2,), (2,)), raw_index(E, (F,))), 4)
    # reductions through the public API (Reduction -> Blockwise + PartialReduce tree), and slices pushed through them
    reg("sum(x3,axis=0,split_every=2)", lambda w, E: p_sum(w, source(w, E, "x", (3,)), 0, split_every=2), 2)
    reg("sum(x2x3,axis=1)", lambda w, E: p_sum(w, source(w, E, "x", (2, 3)), 1), 3)
    reg("sum(x2x2,axis=0,keepdims)[:,a:b]", lambda w, E: p_slice(w, p_sum(w, source(w, E, "x", (2, 2)), 0, keepdims=True), raw_index(E, ((0, 0, None), F))), 5)
    reg("sum(x2x2,axis=0,keepdims)[a:b,c:d]", lambda w, E: p_slice(w, p_sum(w, source(w, E, "x", (2, 2)), 0, keepdims=True), raw_index(E, (F, F))), 8)
    reg("sum(x2x2,axis=1)[a:b]", lambda w, E: p_slice(w, p_sum(w, source(w, E, "x", (2, 2)), 1), raw_index(E, (F,))), 5)
    reg("sum(x2x2,axis=0)[i]", lambda w, E: p_slice(w, p_sum(w, source(w, E, "x", (2, 2)), 0), raw_index(E, ("i",))), 4)
    reg("sum(x2+y2,axis=0)", lambda w, E: p_sum(w, _add_aligned(w, E, (2,)), 0), 3)
    # consumers that observe the block grid of an array the optimizer re-grids underneath them
    REV = ((0, 0, -1),)
    reg("blocks[::-1]((x[1,1,4]+y[1,4,1])[::-1])", lambda w, E: p_blocks(w, E, p_slice(w, _add_concrete(w, E, (1, 1, 4), (1, 4, 1)), raw_index(E, REV)), slice(None, None, -1)), 3)
    reg("blocks[0]((x[1,1,4]+y[1,4,1])[::-1])", lambda w, E: p_blocks(w, E, p_slice(w, _add_concrete(w, E, (1, 1, 4), (1, 4, 1)), raw_index(E, REV)), 0), 3)
    reg("blocks[1]((x2+y3)(unaligned)[::-1])", lambda w, E: p_blocks(w, E, p_slice(w, _add_unaligned(w, E, (2,), (3,)), raw_index(E, REV)), 1), 5)
    reg("blocks[1:](x3(zero-width chunks allowed)[a:b])", lambda w, E: p_blocks(w, E, p_slice(w, source(w, E, "x", (3,), lo=0), raw_index(E, (F,))), slice(1, None)), 4)
    reg("blocks[1](x3)", lambda w, E: p_blocks(w, E, source(w, E, "x", (3,)), 1), 1)
    reg("blocks[1,::-1](x2x2.T)", lambda w, E: p_blocks(w, E, p_transpose(w, source(w, E, "x", (2, 2)), (1, 0)), (1, slice(None, None, -1))), 2)
    reg("map_blocks(first,((x[1,1,4]+y[1,4,1])[::-1])*2)", lambda w, E: p_map_first(w, E, p_elemwise(w, operator.mul, p_slice(w, _add_concrete(w, E, (1, 1, 4), (1, 4, 1)), raw_index(E, REV)), 2.0)), 3)
    reg("map_blocks(first,(x[4,8]+y[8,4])[5:12]*2)", lambda w, E: p_map_first(w, E, p_elemwise(w, operator.mul, p_slice(w, _add_concrete(w, E, (4, 8), (8, 4)), (slice(5, 12),)), 2.0)), 3)
    reg("map_blocks(first,(x[2,2,2,2,2,2]+y[1,11])[[9,7,5]]*2)", lambda w, E: p_map_first(w, E, p_elemwise(w, operator.mul, p_take(w, E, _add_concrete(w, E, (2,) * 6, (1, 11)), 0, [9, 7, 5]), 2.0)), 3)
    reg("blockwise(twice,x[4,8],y[11,1],adjust_chunks=2n)[a:b]", lambda w, E: p_slice(w, p_blockwise_twice(w, E, source(w, E, "x", (2,), chunks=[(4, 8)]), source(w, E, "y", (2,), chunks=[(11, 1)])), raw_index(E, (F,))), 6)
    reg("contract(a[s,s|1,1,2],b[3,1])[a:].sum(1)", lambda w, E: _contract_then(w, E, raw_index(E, ((1, 0, None),))), 6)
    reg("map_blocks(reverse,x2)[a:b]", lambda w, E: p_slice(w, p_map_rev(w, E, source(w, E, "x", (2,))), raw_index(E, (F,))), 4)
    reg("map_blocks(reverse,x2)[i]", lambda w, E: p_slice(w, p_map_rev(w, E, source(w, E, "x", (2,))), raw_index(E, ("i",))), 3)
    reg("map_blocks(reverse,x[2,3])[[1,2,4]]", lambda w, E: _at_site(p_take(w, E, p_map_rev(w, E, source(w, E, "x", (2,), chunks=[(2, 3)])), 0, [1, 2, 4]), MAP_BLOCKS_TAKE_SITE), 3)
    reg("map_blocks(first,x[5,7][::2][0:3])", lambda w, E: p_map_first(w, E, p_slice(w, p_slice(w, source(w, E, "x", (2,), chunks=[(5, 7)]), (slice(None, None, 2),)), (slice(0, 3),))), 3)
    reg("map_blocks(first,x3[::-1])", lambda w, E: p_map_first(w, E, p_slice(w, source(w, E, "x", (3,)), raw_index(E, REV))), 2)
    # creation with affine values: slices fold into start/step (Arange._accept_slice)
    reg("arange(start,stop,2;3 blocks)", lambda w, E: p_arange(w, E, 2, 3), 2)
    reg("arange(start,stop,1;3 blocks)[a:b]", lambda w, E: p_slice(w, p_arange(w, E, 1, 3), raw_index(E, (F,))), 4)
    reg("arange(start,stop,3;2 blocks)[a:b:-1]", lambda w, E: p_slice(w, p_arange(w, E, 3, 2), raw_index(E, ((1, 1, -1),))), 6)
    reg("arange(start,stop,-2;2 blocks)[a:]", lambda w, E: p_slice(w, p_arange(w, E, -2, 2), raw_index(E, ((1, 0, None),))), 4)
    reg("(arange(..,1;2 blocks)+x2)[a:b]", lambda w, E: _arange_plus(w, E), 6)
    # integer-list indices (take -> Shuffle) and shuffles pushed through other nodes
    reg("x3[[2,0,1]]", lambda w, E: p_take(w, E, source(w, E, "x", (3,)), 0, [2, 0, 1]), 6)
    reg("broadcast_to(x2+1,(n,)+shape)[:,[1,0,0]]", lambda w, E: p_take(w, E, p_broadcast(w, p_elemwise(w, plus_one_ufunc, source(w, E, "x", (2,))), (E.int("lead", 1),)), 1, [1, 0, 0]), 6)
    reg("broadcast_to(x2,(n,)+shape)[[0,0],:]", lambda w, E: p_take(w, E, p_broadcast(w, source(w, E, "x", (2,)), (E.int("lead", 1),)), 0, [0, 0]), 6)
    reg("(x2x2+w[one block])[:,[1,0,0]]", lambda w, E: p_take(w, E, _add_row(w, E), 1, [1, 0, 0]), 6)
    reg("x2x2[i,j]+x2x2[i,j:j+1] (same region, different dropped axes)", lambda w, E: _same_region_two_ways(w, E), 5)
    reg("x2x2[:,[1,0,0]]", lambda w, E: p_take(w, E, source(w, E, "x", (2, 2)), 1, [1, 0, 0]), 6)
    reg("(x2+y2)[[1,2,0]]", lambda w, E: p_take(w, E, _add_aligned(w, E, (2,)), 0, [1, 2, 0]), 8)
    reg("transpose(x2x2)[[1,0]]", lambda w, E: p_take(w, E, p_transpose(w, source(w, E, "x", (2, 2)), (1, 0)), 0, [1, 0]), 8)
    reg("x3[[2,0,1]][a:b]", lambda w, E: p_slice(w, p_take(w, E, source(w, E, "x", (3,)), 0, [2, 0, 1]), raw_index(E, (F,))), 10)
    reg("blockwise(np.transpose,'ji',x2x2,'ij')", lambda w, E: p_blockwise_T(w, E, source(w, E, "x", (2, 2))), 3)
    reg("blockwise(np.transpose,'ji',x2x2,'ij')[[1,0]]", lambda w, E: p_take(w, E, p_blockwise_T(w, E, source(w, E, "x", (2, 2))), 0, [1, 0]), 8)
    reg("blockwise(np.transpose,'ji',x2x2,'ij')[a:b,i]", lambda w, E: p_slice(w, p_blockwise_T(w, E, source(w, E, "x", (2, 2))), raw_index(E, (F, "i"))), 6)
    reg("stack([x2,y2],0)[a:b]", lambda w, E: p_slice(w, _stack_aligned(w, E, 0), raw_index(E, (F,))), 5)
    reg("stack([x2,y2],1)[:,a:b]", lambda w, E: p_slice(w, _stack_aligned(w, E, 1), raw_index(E, ((0, 0, None), F))), 5)
    reg("concatenate([x2,y2],0)[a:b:-1]", lambda w, E: p_slice(w, p_concat(w, [source(w, E, "x", (2,)), source(w, E, "y", (2,))], 0), raw_index(E, ((1, 1, -1),))), 6)
    reg("x2x2.T+y1x1(rechunk inserted by lowering over a transpose)", lambda w, E: _add_T_coarse(w, E), 4)
    reg("sliding_window_view(x3,W,0).sum(-1)", lambda w, E: p_sliding_sum(w, E, source(w, E, "x", (3,)), 0), 12)
    reg("sliding_window_view(x3,2,0)", lambda w, E: p_sliding_view(w, E, source(w, E, "x", (3,)), (2,), (0,)), 8)
    # a separable 2-d rolling sum: the inner reduction's own native rewrite changes the chunks the outer one was planned against
    reg("sliding_window_view(sliding_window_view(x2x2,W,1).sum(-1),V,0).sum(-1)",
        lambda w, E: p_sliding_sum(w, E, p_sliding_sum(w, E, source(w, E, "x", (2, 2), chunks=[(2, 2), (3, 3)]), 1), 0, tag="window2"), 14)
    reg("map_blocks(np.add,sliding_window_view(x[1,1,1,1],W).sum(-1),y)", _map2_over_sliding, 4)
    reg("sliding_window_view(x3,2,0)[a:b]", lambda w, E: p_slice(w, p_sliding_view(w, E, source(w, E, "x", (3,)), (2,), (0,)), raw_index(E, (F,))), 12)
    reg("sliding_window_view(x2,(2,2),(0,0))", lambda w, E: p_sliding_view(w, E, source(w, E, "x", (2,)), (2, 2), (0, 0)), 8)
    reg("diag(x2)", lambda w, E: p_diag(w, E, source(w, E, "x", (2,))), 2)
    reg("diag(x2x2, same chunks on both axes)", lambda w, E: p_diag(w, E, _square(w, E, 2)), 3)
    reg("diag(x[3+5,5+3])", lambda w, E: p_diag(w, E, source(w, E, "x", (2, 2), chunks=[(3, 5), (5, 3)])), 2)
    reg("diag(x[2+2,1+3],k=1)", lambda w, E: p_diag(w, E, source(w, E, "x", (2, 2), chunks=[(2, 2), (1, 3)]), 1), 2)
    reg("T(map(T(y,(1,2,0))),(0,2,1))+T(y,(2,1,0)), y=map(x2x2x2) shared", lambda w, E: _shared_through_two_permutations(w, E), 8)
    reg("map_blocks(np.add,y[1],x1) (length-1 operand first)", lambda w, E: p_map2(w, source(w, E, "y", (1,), chunks=[(1,)]), source(w, E, "x", (1,))), 2)
    reg("map_blocks(np.add,x2x2,col[n,1])[:,a:b]", lambda w, E: p_slice(w, _map_blocks_with_column(w, E), raw_index(E, ((0, 0, None), F))), 6)
    reg("map_blocks(np.add,x2,y[1])", lambda w, E: p_map2(w, source(w, E, "x", (2,)), source(w, E, "y", (1,), chunks=[(1,)])), 2)
    reg("map_blocks(np.add,y[1],x2)", lambda w, E: p_map2(w, source(w, E, "y", (1,), chunks=[(1,)]), source(w, E, "x", (2,))), 2)
    # map_blocks with block_info / block_id, with rewrites above and below the call
    reg("map_blocks(f_info,x3)", lambda w, E: p_map_blocks(w, E, source(w, E, "x", (3,))), 3)
    reg("map_blocks(f_info,x2x2)", lambda w, E: p_map_blocks(w, E, source(w, E, "x", (2, 2))), 3)
    reg("map_blocks(f_id,x2x2)", lambda w, E: p_map_blocks(w, E, source(w, E, "x", (2, 2)), "id"), 3)
    reg("map_blocks(f_id,x3)[a:b]", lambda w, E: p_slice(w, p_map_blocks(w, E, source(w, E, "x", (3,)), "id"), raw_index(E, (F,))), 5)
    reg("map_blocks(f_info2,a2x2,b2,drop_axis=0)", lambda w, E: _two_rank_inputs(w, E), 4)
    reg("map_blocks(f_info,x2)[a:b]", lambda w, E: p_slice(w, p_map_blocks(w, E, source(w, E, "x", (2,))), raw_index(E, (F,))), 4)
    reg("map_blocks(f_info,x2x2).T", lambda w, E: p_transpose(w, p_map_blocks(w, E, source(w, E, "x", (2, 2))), (1, 0)), 3)
    reg("map_blocks(f_info,rechunk(x2->3))", lambda w, E: p_map_blocks(w, E, _rechunk_prog(w, E, (2,), (3,))), 4)
    reg("rechunk(map_blocks(f_info,x2)->3)", lambda w, E: _rechunk_over(w, E, p_map_blocks(w, E, source(w, E, "x", (2,))), (3,)), 4)
    reg("map_blocks(f_info,x2+y3(unaligned))", lambda w, E: p_map_blocks(w, E, _add_unaligned(w, E, (2,), (3,))), 6)
    reg("map_blocks(f_info,x3[a:b])", lambda w, E: p_map_blocks(w, E, p_slice(w, source(w, E, "x", (3,)), raw_index(E, (F,)))), 5)
    reg("map_blocks(f_info,sliding_window_view(x3,W,0).sum(-1))", lambda w, E: p_map_blocks(w, E, p_sliding_sum(w, E, source(w, E, "x", (3,)), 0)), 14)
    reg("x2x2.view('f4')", lambda w, E: p_view(w, E, source(w, E, "x", (2, 2)), "f4"), 2)
    reg("x2x2.view('f4',order='F')", lambda w, E: p_view(w, E, source(w, E, "x", (2, 2)), "f4", "F"), 2)
    # thin public wrappers over the same expression classes (axis arithmetic, argument plumbing)
    TRm, FLm, RLm, TIm, SIm, IDm, XPm = ("dask_array.manipulation._transpose", "dask_array.manipulation._flip", "dask_array.manipulation._roll",
                                         "dask_array.creation._tile", "dask_array.stacking._simple", "dask_array.routines._insert_delete",
                                         "dask_array.manipulation._expand")
    reg("swapaxes(x2x2,0,1)", lambda w, E: p_pub(w, source(w, E, "x", (2, 2)), None, "swapaxes", lambda X: np.swapaxes(X, 0, 1), 0, 1), 1)
    reg("moveaxis(x2x1x2,0,-1)", lambda w, E: p_pub(w, source(w, E, "x", (2, 1, 2)), TRm, "moveaxis", lambda X: np.moveaxis(X, 0, -1), 0, -1), 2)
    reg("squeeze(expand_dims(x2,(0,)))", lambda w, E: p_pub(w, p_expand(w, source(w, E, "x", (2,)), (0,)), None, "squeeze", lambda X: X[0]), 1)
    reg("flip(x2x2,0)", lambda w, E: p_pub(w, source(w, E, "x", (2, 2)), FLm, "flip", lambda X: np.flip(X, 0), 0), 2)
    reg("rot90(x2x2)", lambda w, E: p_pub(w, source(w, E, "x", (2, 2)), FLm, "rot90", lambda X: np.flip(np.transpose(X, (1, 0)), 0)), 2)
    reg("x2[::-1]+x2", lambda w, E: (lambda p: p_elemwise(w, operator.add, p_slice(w, p, (slice(None, None, -1),)), p))(source(w, E, "x", (2,))), 4)
    reg("roll(x3,1,axis=0)", lambda w, E: p_pub(w, source(w, E, "x", (3,), lo=2), RLm, "roll", lambda X: np.concatenate([X[-1:], X[:-1]]), 1, axis=0), 2)
    reg("tile(x3,2)", lambda w, E: p_pub(w, source(w, E, "x", (3,)), TIm, "tile", lambda X: np.concatenate([X, X]), 2), 2)
    reg("atleast_2d(x3)", lambda w, E: p_pub(w, source(w, E, "x", (3,)), XPm, "atleast_2d", lambda X: X[None]), 1)
    reg("concatenate([x2,y1,z2],0)", lambda w, E: p_concat(w, [source(w, E, "x", (2,)), source(w, E, "y", (1,)), source(w, E, "z", (2,))], 0), 2)
    reg("hstack([x2,y2])", lambda w, E: p_pub_many(w, [source(w, E, "x", (2,)), source(w, E, "y", (2,))], SIm, "hstack", lambda R: np.concatenate(R)), 2)
    reg("append(x2,y2)", lambda w, E: (lambda a, b: Prog(w.fn(IDm, "append")(w.fn(NC, "new_collection")(a.node), w.fn(NC, "new_collection")(b.node)).expr,
                                                            np.concatenate([a.ref, b.ref]), {**a.dsk, **b.dsk}))(source(w, E, "x", (2,)), source(w, E, "y", (2,))), 2)
    CMm = "dask_array.reductions._cumulative"
    reg("eye(3,chunks=5,M=12,k)", lambda w, E: p_eye(w, E, 3, 5, 12), 3)
    reg("eye(7,chunks=3,M=5,k)", lambda w, E: p_eye(w, E, 7, 3, 5), 3)
    # moments of order 0 / 1 are constants by definition; keepdims still shapes them
    reg("moment(x2x2,0,axis=1,keepdims)", lambda w, E: p_pub(w, source(w, E, "x", (2, 2)), RCM, "moment", lambda X: SArr((X.shape[0], 1), lambda idx: z3.RealVal(1)), 0, axis=1, keepdims=True), 2)
    reg("moment(x2x2,1,axis=0,keepdims)", lambda w, E: p_pub(w, source(w, E, "x", (2, 2)), RCM, "moment", lambda X: SArr((1, X.shape[1]), lambda idx: z3.RealVal(0)), 1, axis=0, keepdims=True), 2)
    reg("moment(x2x2,1,axis=0)", lambda w, E: p_pub(w, source(w, E, "x", (2, 2)), RCM, "moment", lambda X: SArr((X.shape[1],), lambda idx: z3.RealVal(0)), 1, axis=0), 2)
    reg("cumsum(x3,axis=0)", lambda w, E: p_pub(w, source(w, E, "x", (3,)), CMm, "cumsum", lambda X: X.accumulate(0, "add"), axis=0), 2)
    reg("cumsum(x3,axis=0,method=blelloch)", lambda w, E: p_pub(w, source(w, E, "x", (3,)), CMm, "cumsum", lambda X: X.accumulate(0, "add"), axis=0, method="blelloch"), 2)
    reg("cumsum(x2x2,axis=1)[a:b]", lambda w, E: p_slice(w, p_pub(w, source(w, E, "x", (2, 2)), CMm, "cumsum", lambda X: X.accumulate(1, "add"), axis=1), raw_index(E, (F,))), 5)
    reg("diff(x3)", lambda w, E: p_pub(w, source(w, E, "x", (3,), lo=1), "dask_array.routines._diff", "diff", lambda X: X[1:] - X[:-1]), 4)
    reg("gradient(x2,axis=(0,))[0]", lambda w, E: p_gradient(w, E, source(w, E, "x", (2,), lo=2), (0,), 0), 3)
    reg("gradient(x2x2,2.0,axis=(1,0))[0]", lambda w, E: p_gradient(w, E, source(w, E, "x", (2, 2), lo=2), (1, 0), 0, 2.0), 4)
    reg("gradient(x2x2,2.0,axis=(1,0))[1]", lambda w, E: p_gradient(w, E, source(w, E, "x", (2, 2), lo=2), (1, 0), 1, 2.0), 4)
    # point-wise indexing with two integer arrays (entries enumerated by forking; sizes of the other axes symbolic)
    reg("x(2,1)x2.vindex[[p,q],:]... two arrays: x.vindex[[p0,p1],:,[q0,2]]", lambda w, E: _vindex_prog(w, E, ((2, 1), "s", (1, 2)), 2, {(2, 1): 2}), 9)
    reg("x.vindex[:,[p0,1],:,[q0,q1]] (4-d, separated axes)", lambda w, E: _vindex_prog(w, E, ("s", (1, 1), "s", (2,)), 2, {(1, 1): 1}), 9)
    # nested-op fusion
    reg("transpose(transpose(x2x1x2,(1,2,0)),(0,2,1))", lambda w, E: p_transpose(w, p_transpose(w, source(w, E, "x", (2, 1, 2)), (1, 2, 0)), (0, 2, 1)), 3)
    reg("transpose(transpose(x2x2,(1,0)),(1,0))", lambda w, E: p_transpose(w, p_transpose(w, source(w, E, "x", (2, 2)), (1, 0)), (1, 0)), 2)
    reg("expand_dims(expand_dims(x2,(0,)),(2,))", lambda w, E: p_expand(w, p_expand(w, source(w, E, "x", (2,)), (0,)), (2,)), 2)
    reg("transpose(expand_dims(x2x2,(0,)),(2,0,1))[a:b]", lambda w, E: p_slice(w, p_transpose(w, p_expand(w, source(w, E, "x", (2, 2)), (0,)), (2, 0, 1)), raw_index(E, (F,))), 5)
    # every pushdown target once: slice over X and rechunk over X
    reg("expand_dims(x2x2,(1,))[a:b,:,i]", lambda w, E: p_slice(w, p_expand(w, source(w, E, "x", (2, 2)), (1,)), raw_index(E, (F, (0, 0, None), "i"))), 4)
    reg("broadcast_to(x2,(n,)+shape)[i,a:b]", lambda w, E: p_slice(w, p_broadcast(w, source(w, E, "x", (2,)), (E.int("lead", 1),)), raw_index(E, ("i", F))), 4)
    reg("stack([x2,y2],0)[i,a:b]", lambda w, E: p_slice(w, _stack_aligned(w, E, 0), raw_index(E, ("i", F))), 4)
    reg("stack([x2,y2],1)[a:b]", lambda w, E: p_slice(w, _stack_aligned(w, E, 1), raw_index(E, (F,))), 4)
    reg("concatenate([x2x2,y2x1],1)[a:b,c:d]", lambda w, E: p_slice(w, _concat_axis1(w, E), raw_index(E, (F, F))), 8)
    reg("(x2x2+y2)[i,a:b](broadcast)", lambda w, E: p_slice(w, _add_broadcast(w, E, aligned=True), raw_index(E, ("i", F))), 5)
    reg("x2x2[a:b][c:d](fused slices)", lambda w, E: p_slice(w, p_slice(w, source(w, E, "x", (2, 2)), raw_index(E, (F,), "k")), raw_index(E, (F,), "m")), 6)
    reg("x2[a::2][b:c](strided then offset)", lambda w, E: p_slice(w, p_slice(w, source(w, E, "x", (2,)), raw_index(E, ((1, 0, 2),), "k")), raw_index(E, (F,), "m")), 8)
    reg("rechunk(transpose(x2x2))", lambda w, E: _rechunk_over(w, E, p_transpose(w, source(w, E, "x", (2, 2)), (1, 0)), (2, 1)), 4)
    reg("rechunk(expand_dims(x2,(0,)))", lambda w, E: _rechunk_over(w, E, p_expand(w, source(w, E, "x", (2,)), (0,)), (1, 3)), 3)
    reg("rechunk(scaled(x2,factor=2.5))", lambda w, E: _rechunk_over(w, E, p_elemwise(w, scaled, source(w, E, "x", (2,)), factor=2.5), (3,)), 4)
    reg("scaled(x2,factor=2.5)[a:b]", lambda w, E: p_slice(w, p_elemwise(w, scaled, source(w, E, "x", (2,)), factor=2.5), raw_index(E, (F,))), 4)
    reg("scaled(x2x2,factor=2.5).T", lambda w, E: p_transpose(w, p_elemwise(w, scaled, source(w, E, "x", (2, 2)), factor=2.5), (1, 0)), 2)
    reg("add(x2x2,y2x2,dtype=f4).T", lambda w, E: p_transpose(w, _add_dtype(w, E, (2, 2)), (1, 0)), 2)
    reg("add(x2,y2,dtype=f4)[a:b]", lambda w, E: p_slice(w, _add_dtype(w, E, (2,)), raw_index(E, (F,))), 3)
    reg("rechunk(add(x2,y2,dtype=f4))", lambda w, E: _rechunk_over(w, E, _add_dtype(w, E, (2,)), (3,)), 4)
    reg("add(x2,y2,where=m3(own chunks),out=o2)", lambda w, E: _add_where_out(w, E, (2,), (3,)), 6)
    reg("add(x2x2+1,y2x2,where=m2(1-d),out=o2x2)", lambda w, E: _add_where_out(w, E, (2, 2), (2,), mask_axes=(1,), pre=True), 6)
    reg("concatenate([rechunk(rechunk(x40)[0:10]),rechunk(rechunk(x40)[20:30])]) (same layout, two regions)", lambda w, E: _two_windows(w, E), 4)
    reg("add(x2,y2,where=m2,out=o2)[a:b]", lambda w, E: p_slice(w, _add_where_out(w, E, (2,), (2,), aligned_mask=True), raw_index(E, (F,))), 6)
    reg("add(x2,y2,where=m2,out=o2)[i]", lambda w, E: p_slice(w, _add_where_out(w, E, (2,), (2,), aligned_mask=True), raw_index(E, ("i",))), 4)
    reg("add(x2,y2,where=m,out=o)-add(x2,y2,where=m,out=p) (two masked calls, one graph)", lambda w, E: _two_masked_calls(w, E), 5)
    reg("rechunk(x2+y2)", lambda w, E: _rechunk_over(w, E, _add_aligned(w, E, (2,)), (3,)), 4)
    reg("rechunk(concatenate([x2,y2],0))", lambda w, E: _rechunk_over(w, E, p_concat(w, [source(w, E, "x", (2,)), source(w, E, "y", (2,))], 0), (3,)), 6)
    reg("rechunk(concatenate([x2x2,y2x1],1),axis0)", lambda w, E: _rechunk_over(w, E, _concat_axis1(w, E), (1, None)), 5)
    reg("rechunk(rechunk(x2->3)->2)", lambda w, E: _rechunk_over(w, E, _rechunk_prog(w, E, (2,), (3,)), (2,), "s"), 4)
    reg("rechunk(x3[a:b])", lambda w, E: _rechunk_over(w, E, p_slice(w, source(w, E, "x", (3,)), raw_index(E, (F,))), (2,)), 6)
    if not q:
        reg("x3[a::2][b:c](strided then offset)", lambda w, E: p_slice(w, p_slice(w, source(w, E, "x", (3,)), raw_index(E, ((1, 0, 2),), "k")), raw_index(E, (F,), "m")), 30)
        reg("slice(x3x2)[a:b:2,::-1]", lambda w, E: p_slice(w, source(w, E, "x", (3, 2)), raw_index(E, ((1, 1, 2), (0, 0, -1)))), 6)
        reg("x3+y2(unaligned)", lambda w, E: _add_unaligned(w, E, (3,), (2,)), 6)
        reg("stack([x2x2,y2x2],2)", lambda w, E: _stack2d(w, E), 2)
        reg("expand_dims(x2x2,(1,))[a:b,0,i]", lambda w, E: p_slice(w, p_expand(w, source(w, E, "x", (2, 2)), (1,)), raw_index(E, (F, "i", "i"))), 6)
    return P


def _rechunk_prog(w, E, blocks, new_blocks):
    p = source(w, E, "x", blocks)
    tgt = tuple(tuple(E.int(f"r{a}_{i}", 1) for i in range(m)) for a, m in enumerate(new_blocks))
    for a in range(len(blocks)):
        E.assume(sum(tgt[a]) == sum(p.node.chunks[a]))
    return p_rechunk(w, p, tgt)


def _arange_plus(w, E):
    a = p_arange(w, E, 1, 2)
    x = source(w, E, "x", (2,), chunks=a.node.chunks)
    return p_slice(w, p_elemwise(w, operator.add, a, x), raw_index(E, ((1, 1, None),)))


def _rechunk_over(w, E, p, new_blocks, tag="r"):
    """rechunk `p` to `new_blocks` blocks per axis (None: keep that axis' chunks) with symbolic sizes"""
    cur = p.node.chunks
    tgt = []
    for a, m in enumerate(new_blocks):
        if m is None:
            tgt.append(tuple(cur[a]))
            continue
        c = tuple(E.int(f"{tag}{a}_{i}", 1) for i in range(m))
        E.assume(sum(c) == sum(cur[a]))
        tgt.append(c)
    return p_rechunk(w, p, tuple(tgt))


def _square(w, E, m):
    c = source(w, E, "c", (m,))
    return source(w, E, "x", (m, m), chunks=[c.node.chunks[0], c.node.chunks[0]])


def _add_where_out(w, E, blocks, mask_blocks, mask_axes=None, pre=False, aligned_mask=False):
    """np.add(x, y, where=mask, out=o): the mask has its own chunking (and possibly fewer dimensions); pre: x is x0 + 1 (a
    fusable neighbour)"""
    x = source(w, E, "x", blocks)
    y = source(w, E, "y", blocks, chunks=x.node.chunks)
    o = source(w, E, "o", blocks, chunks=x.node.chunks)
    if aligned_mask:
        m = source(w, E, "m", blocks, chunks=x.node.chunks, dtype="bool")
    elif mask_axes is None:
        m = source(w, E, "m", mask_blocks, shape=[sum(c) for c in x.node.chunks], dtype="bool")
    else:
        m = source(w, E, "m", mask_blocks, shape=[sum(x.node.chunks[a]) for a in mask_axes], dtype="bool")
    if pre:
        x = p_elemwise(w, plus_one_ufunc, x)
    return p_elemwise(w, np.add, x, y, _where=m, _out=o)


def _two_masked_calls(w, E):
    x = source(w, E, "x", (2,))
    y = source(w, E, "y", (2,), chunks=x.node.chunks)
    m = source(w, E, "m", (2,), chunks=x.node.chunks, dtype="bool")
    o = source(w, E, "o", (2,), chunks=x.node.chunks)
    p = source(w, E, "p", (2,), chunks=x.node.chunks)
    return p_elemwise(w, operator.sub, p_elemwise(w, np.add, x, y, _where=m, _out=o), p_elemwise(w, np.add, x, y, _where=m, _out=p))


def plus_one_ufunc(a):
    return a + 1


plus_one_ufunc = user_kernel(plus_one_ufunc)


def _two_windows(w, E):
    """two windows of the same layout cut from one rechunked source, each rechunked again, in one graph (concrete sizes: the
    two reads differ only in their region, so their names must too)"""
    x = source(w, E, "x", (4,), chunks=[(10, 10, 10, 10)])
    y = p_rechunk(w, x, ((5,) * 8,))
    w1 = p_rechunk(w, p_slice(w, y, (slice(0, 10),)), ((2,) * 5,))
    w2 = p_rechunk(w, p_slice(w, y, (slice(20, 30),)), ((2,) * 5,))
    return p_concat(w, [w1, w2], 0)


def _add_row(w, E):
    """x (2x2 blocks) + w, a full-length 1-d operand held in ONE block along x's last axis (not a length-1 broadcast)"""
    x = source(w, E, "x", (2, 2))
    wv = source(w, E, "w", (1,), shape=[sum(x.node.chunks[1])])
    return p_elemwise(w, operator.add, x, wv)


def _same_region_two_ways(w, E):
    x = source(w, E, "x", (2, 2))
    i, j = E.int("ri"), E.int("rj")
    E.assume(AND(i >= 0, i < x.node.shape[0], j >= 0, j < x.node.shape[1]))
    a = p_slice(w, x, (i, j))
    b = p_slice(w, x, (i, E.slice(j, j + 1, None)))
    return p_elemwise(w, operator.add, a, b)


def _add_dtype(w, E, blocks):
    """an element-wise op with an explicit dtype= that differs from the inferred one (values are exact reals here; what is
    followed is the advertised dtype)"""
    x = source(w, E, "x", blocks)
    y = source(w, E, "y", blocks, chunks=x.node.chunks)
    return p_elemwise(w, operator.add, x, y, _dtype=np.dtype("f4"))


def _add_aligned(w, E, blocks):
    x = source(w, E, "x", blocks)
    y = source(w, E, "y", blocks, chunks=x.node.chunks)
    return p_elemwise(w, operator.add, x, y)


def _add_unaligned(w, E, bx, by, policy="coarse", hi=None, lo=1):
    set_policy(w, policy)
    x = source(w, E, "x", bx, hi=hi, lo=lo)
    y = source(w, E, "y", by, shape=x.node.shape, hi=hi, lo=lo)
    return p_elemwise(w, operator.add, x, y)


def _add_broadcast(w, E, aligned=False):
    x = source(w, E, "x", (2, 2))
    y = source(w, E, "y", (2,), shape=(x.node.shape[1],))
    if aligned:
        for i in range(2):
            E.assume(y.node.chunks[0][i] == x.node.chunks[1][i])
    return p_elemwise(w, operator.add, x, y)


def _add_broadcast_chain(w, E):
    x = source(w, E, "x", (2, 2))
    y = source(w, E, "y", (2,), shape=(x.node.shape[1],))
    for i in range(2):
        E.assume(y.node.chunks[0][i] == x.node.chunks[1][i])
    return p_elemwise(w, operator.add, x, p_elemwise(w, operator.neg, y))


def _add_T_coarse(w, E):
    x = source(w, E, "x", (2, 2))
    xt = p_transpose(w, x, (1, 0))
    y = source(w, E, "y", (1, 1), shape=xt.node.shape)
    return p_elemwise(w, operator.add, xt, y)


def _add_transpose(w, E):
    x = source(w, E, "x", (2, 2))
    E.assume(x.node.shape[0] == x.node.shape[1])
    return p_elemwise(w, operator.add, x, p_transpose(w, x, (1, 0)))


def _concat_axis1(w, E):
    x = source(w, E, "x", (2, 2))
    y = source(w, E, "y", (2, 1), shape=(x.node.shape[0], None))
    for i in range(2):
        E.assume(y.node.chunks[0][i] == x.node.chunks[0][i])
    return p_concat(w, [x, y], 1)


def _stack_aligned(w, E, axis):
    x = source(w, E, "x", (2,))
    y = source(w, E, "y", (2,))
    for i in range(2):
        E.assume(y.node.chunks[0][i] == x.node.chunks[0][i])
    return p_stack(w, [x, y], axis)


def _stack2d(w, E):
    x = source(w, E, "x", (2, 2))
    y = source(w, E, "y", (2, 2))
    for a in range(2):
        for i in range(2):
            E.assume(y.node.chunks[a][i] == x.node.chunks[a][i])
    return p_stack(w, [x, y], 2)


# ------------------------------------------------------------------ generic instance bodies


def run_tree(E, low, chunks, label, check_shapes=False, check_keys=False):
    """graph of an already lowered tree from its real layers, executed; blocks compared with `chunks` if asked"""
    dsk = _layers(low)
    if check_keys:
        layer_keys_ok(E, dsk, low._name, tuple(len(c) for c in chunks), label=f"{label}-keys")
    whole, r = run_blocks(E, dsk, low._name, chunks, label=f"{label}-blocks", check_shapes=check_shapes)
    return whole, dsk, r


def computed(E, w, m):
    """what compute() hands back: the materialized tree under the repository's FinalizeComputeArray -- one task applying
    `finalize` to the nested key list the root expression reports -- executed on the symbolic blocks"""
    from symx.graph import Runner

    fin = m.finalize_compute()
    dsk = dict(_layers(m))
    layer = fin._layer()
    dsk.update(layer)
    r = Runner(dsk, kernels=dict(finalize=None))  # the repository's own finalize (its concatenate3 is the array model's)
    return r.get(fin._name)


def stages(E, w, node, want):
    """the repository's own optimizer pipeline on a symbolic tree; `want` selects which stages are built:
    raw (lower only), simplified, lowered, fused, materialized (optimize on), materialized_off (optimize off)"""
    out = {}
    if "raw" in want:
        out["raw"] = lower_tree(node)
    if want & {"simplified", "lowered", "fused"}:
        s = node.simplify()
        out["simplified"] = s
        if want & {"lowered", "fused"}:
            low = lower_tree(s)
            out["lowered"] = low
            if "fused" in want:
                out["fused"] = low.fuse()
    if "materialized" in want:
        out["materialized"] = w.fn(MT, "_materialize")(node, True)
    if "materialized_off" in want:
        out["materialized_off"] = w.fn(MT, "_materialize")(node, False)
    return out


def make_instances(tier, prop, body_fn, unit, select=None):
    """body_fn(E, w, prog) states the property-specific obligations"""
    from symx.runner import Instance

    out = []
    for name, (fn, cost) in programs(tier).items():
        if select is not None and not select(name):
            continue
        if name in ONLY_FOR and prop not in ONLY_FOR[name]:
            continue

        def body(E, fn=fn):
            w = W(E)
            prog = fn(w, E)
            E.observe("advertised-chunks", [list(c) for c in prog.node.chunks])
            if getattr(prog, "site", None):
                E.tag("site", prog.site)
            body_fn(E, w, prog)

        out.append(Instance(f"{prop.lower()}[{name}]", body, dict(program=name), unit=unit, cost=cost, wall_s=900))
    return out
