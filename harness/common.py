"""Shared harness plumbing: cached worlds (symbolic / concrete), recorders, small helpers."""
from __future__ import annotations

import itertools

from symx.world import World, func_hash

_WORLDS = {}


def world(key, symbolic, modules, extra=None, extra_by_module=None):
    """One World per (key, mode) per process.  Stubs that need per-path state should hold it in
    a mutable object created by the harness body."""
    k = (key, bool(symbolic))
    if k not in _WORLDS:
        _WORLDS[k] = World(modules, symbolic=symbolic, extra=extra, extra_by_module=extra_by_module)
    return _WORLDS[k]


def unit_hashes(specs):
    """specs: iterable of (module_name, 'func') or (module_name, 'Class.method')"""
    import importlib

    out = []
    for mod, q in specs:
        m = importlib.import_module(mod)
        obj = m
        for part in q.split("."):
            obj = obj.__dict__[part] if isinstance(obj, type) else getattr(obj, part)
        out.append(func_hash(obj))
    return out


class Rec:
    """Recorder standing in for a constructor (Task, Alias, expression classes ...)."""

    def __init__(self, kind, *a, **k):
        self.kind = kind
        self.a = a
        self.k = k

    def __repr__(self):
        return f"{self.kind}{self.a}{self.k or ''}"


def rec(kind):
    def make(*a, **k):
        return Rec(kind, *a, **k)

    make.__name__ = kind
    return make


class Fake:
    """Duck-typed stand-in for `self` / operands."""

    def __init__(self, **kw):
        self.__dict__.update(kw)


class Cfg:
    """dask.config stub: the environment as a harness-controlled (possibly symbolic) value."""

    def __init__(self, d=None):
        self.d = dict(d or {})

    def get(self, k, default=None):
        return self.d.get(k, default)


def none_patterns(n):
    return list(itertools.product((0, 1), repeat=n))
