"""Shared harness plumbing: cached worlds (symbolic / concrete), recorders, small helpers."""
from __future__ import annotations

import itertools

from symx.world import World, func_hash

_WORLDS = {}


def world(key, symbolic, modules, extra=None, extra_by_module=None, nodes=False, desugar=(), clone_classes=()):
    """One World per (key, mode) per process.  Stubs that need per-path state should hold it in
    a mutable object created by the harness body."""
    k = (key, bool(symbolic))
    if k not in _WORLDS:
        _WORLDS[k] = World(modules, symbolic=symbolic, extra=extra, extra_by_module=extra_by_module, nodes=nodes, desugar=desugar, clone_classes=clone_classes)
        # block functions index the blocks they are given -- real ndarrays (object arrays of symbolic reals) as well as
        # symbolic arrays -- with slices they build themselves: there `slice` stays the builtin (it may hold symbolic members;
        # only code that calls slice.indices(<symbolic length>) needs the shim's slice objects)
        if "dask_array._chunk" in _WORLDS[k].ns:
            _WORLDS[k].ns["dask_array._chunk"]["slice"] = slice
    return _WORLDS[k]


# ---- trees of symbolic nodes (symx.nodes) -> one task graph


def _own_layer(node):
    """does the node's class define its own _layer (not the materialising default)?"""
    from dask_array._expr import ArrayExpr

    real = type(node).__dict__.get("_symx_real", type(node))
    for klass in real.__mro__:
        if "_layer" in klass.__dict__:
            return klass is not ArrayExpr and klass.__module__.startswith("dask_array")
    return False


def lower_tree(node, depth=0):
    """Lowering of a tree of symbolic nodes: dask's own ``Expr.lower_completely`` driver (it only
    compares names and rebuilds nodes with ``type(expr)(*operands)``, both of which symbolic nodes
    support) calling the repository's ``_lower`` / ``lower_once`` methods."""
    from dask._expr import Expr

    out = Expr.lower_completely(node)
    for n in _walk(out):
        if not _own_layer(n):
            raise NotImplementedError(f"{type(n).__name__} has no _layer after lowering")
    return out


def _walk(node, seen=None):
    from dask._expr import Expr

    seen = set() if seen is None else seen
    if node._name in seen:
        return
    seen.add(node._name)
    yield node
    for op in node.operands:
        if isinstance(op, Expr):
            yield from _walk(op, seen)


def lower_tree_manual(node, depth=0):
    """Minimal stand-in for Expr.lower_completely on symbolic nodes: apply the node's own
    ``_lower`` until it has a layer of its own, then lower its dependencies (in place)."""
    from dask._expr import Expr

    if depth > 12:
        raise RuntimeError("lowering does not settle")
    for _ in range(8):
        if _own_layer(node):
            break
        low = getattr(node, "_lower", None)
        out = low() if low is not None else None
        if out is None:
            break
        node = out
    if not _own_layer(node):
        raise NotImplementedError(f"{type(node).__name__} has no _layer after lowering")
    for i, op in enumerate(list(node.operands)):
        if isinstance(op, Expr):
            new = lower_tree(op, depth + 1)
            if new is not op:
                node.operands[i] = new
                for k in ("chunks", "shape", "numblocks", "ndim"):
                    node.__dict__.pop(k, None)
    return node


def collect_graph(node, dsk=None, seen=None):
    """Union of the real ``_layer()`` of every node under `node` (dependencies first)."""
    from dask._expr import Expr

    dsk = {} if dsk is None else dsk
    seen = set() if seen is None else seen
    if node._name in seen:
        return dsk
    seen.add(node._name)
    for op in node.operands:
        if isinstance(op, Expr):
            collect_graph(op, dsk, seen)
    layer = node._layer()
    dup = set(layer) & set(dsk)
    if dup:
        raise AssertionError(f"layer of {node._name} redefines keys {sorted(dup, key=repr)[:3]}")
    dsk.update(layer)
    return dsk


def unit_hashes(specs):
    """specs: iterable of (module_name, 'func') or (module_name, 'Class.method')"""
    import importlib

    out = []
    for mod, q in specs:
        m = importlib.import_module(mod)
        obj = m
        for part in q.split("."):
            obj = obj.__dict__[part] if isinstance(obj, type) else getattr(obj, part)
        out.append(func_hash(obj))
    return out


class Rec:
    """Recorder standing in for a constructor (Task, Alias, expression classes ...)."""

    def __init__(self, kind, *a, **k):
        self.kind = kind
        self.a = a
        self.k = k

    def __repr__(self):
        return f"{self.kind}{self.a}{self.k or ''}"


def rec(kind):
    def make(*a, **k):
        return Rec(kind, *a, **k)

    make.__name__ = kind
    return make


class Fake:
    """Duck-typed stand-in for `self` / operands."""

    def __init__(self, **kw):
        self.__dict__.update(kw)


class Cfg:
    """dask.config stub: the environment as a harness-controlled (possibly symbolic) value."""

    def __init__(self, d=None):
        self.d = dict(d or {})

    def get(self, k, default=None):
        return self.d.get(k, default)


def none_patterns(n):
    return list(itertools.product((0, 1), repeat=n))
