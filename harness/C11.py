"""C11 -- In-place operations only change the array they are applied to (assignment arithmetic).

``x[index] = value`` builds its graph with ``setitem_array_expr`` (``parse_and_validate_assignment``,
``parse_assignment_indices``, the per-block slice arithmetic).  That real code runs on symbolic chunk
sizes and index bounds; the emitted tasks (``setitem`` on the touched blocks, aliases elsewhere) are
executed on symbolic arrays with NumPy's assignment semantics and the assembled result is compared,
at a skolem position, with the NumPy meaning of the same assignment: selected positions hold the
(broadcast) value element of the right rank, every other position keeps x's element."""
from __future__ import annotations

import itertools

import numpy as np
import z3

from symx import core
from symx.core import _z, range_len, slice_indices
from symx.graph import layer_keys_ok, run_blocks
from symx.oracle import AND, EQ, IMPLIES, ITE, NOT, OR, cumsum0, int_in_range
from symx.runner import Instance
from symx.sarr import BoundsLog, MArr, SArr, leaf, mutable_copy, same_array
from symx.world import SHIM_LIST

from .common import unit_hashes, world

PROPERTY = "C11"
SI = "dask_array.slicing._setitem"
SU = "dask_array.slicing._utils"
MODS = [SI, SU]
UNITS = [(SI, "setitem_array_expr"), (SI, "parse_and_validate_assignment"), (SU, "parse_assignment_indices"),
         (SU, "normalize_index"), (SU, "normalize_slice"), (SU, "posify_index"), (SU, "check_index")]
STUBS = SHIM_LIST + [
    "array / value collections -> duck-typed symbolic collections (shape, chunks, keys; value[idx] is NumPy indexing of a "
    "symbolic array, one chunk)",
    "block kernel setitem(x, v, indices) -> copy of the block with x[indices] = v under NumPy semantics (value broadcast to "
    "the selection; obligations: integer index in range, value broadcasts to the selected shape)",
]
ASSUMPTIONS = [
    "rank (<=2), blocks per axis, index kinds (ints, slices of every None-pattern with steps in +-1..3), value shape kind "
    "(exact, broadcast length-1, scalar, lower rank) are concrete per instance; chunk sizes, bounds, ints symbolic/unbounded",
    "the value's shape is compatible with the selection (exact, length-1 axes, scalar, or trailing axes only)",
    "the documented refusal 'Empty slices can only be assigned size 1 values' (ValueError when the selection has an empty "
    "axis and the value more than one element) is accepted as a refusal: it is an error, not a wrong result",
    "NOT decided here: that previously derived collections keep their value, out=, compute_chunk_sizes, source arrays are not "
    "modified (object identity / buffer aliasing of NumPy kernels), array and boolean keys",
]


def units():
    return unit_hashes(UNITS)


def bounds(tier):
    q = tier == "quick"
    return dict(rank=[1, 2], blocks_per_axis=[1, 2, 3], steps=[1, 2, -1, -2] if q else [1, 2, 3, -1, -2, -3], ints="unbounded")


class Coll:
    """duck-typed dask collection over a symbolic array"""

    _n = 0

    def __init__(self, name, whole, chunks, graph=None):
        self.name, self.whole, self.chunks = name, whole, chunks
        self.shape = whole.shape
        self.ndim = len(self.shape)
        self.numblocks = tuple(len(c) for c in chunks)
        self.npartitions = int(np.prod(self.numblocks)) if self.numblocks else 1
        self.dtype = np.dtype("f8")
        self._meta = np.empty((0,) * self.ndim)

    def __dask_keys__(self):
        def rec(prefix, ax):
            if ax == len(self.numblocks):
                return (self.name,) + tuple(prefix)
            return [rec(prefix + [i], ax + 1) for i in range(self.numblocks[ax])]

        return rec([], 0) if self.numblocks else [(self.name,)]

    def __dask_graph__(self):
        cs = [cumsum0(c) for c in self.chunks]
        dsk = {}
        for g in itertools.product(*[range(n) for n in self.numblocks]):
            dsk[(self.name,) + g] = self.whole[tuple(slice(c[i], c[i + 1]) for c, i in zip(cs, g))]
        return dsk

    def __getitem__(self, idx):
        Coll._n += 1
        sub = self.whole[idx]
        return Coll(f"{self.name}-sel{Coll._n}", sub, tuple((d,) for d in sub.shape))


def _setitem_kernel(x, v, indices):
    out = mutable_copy(x)
    out[tuple(indices)] = v
    return out


def W(E):
    return world("C11", E.symbolic, MODS)


def mk(E, name, present):
    return E.int(name) if present else None


def inst_assign(blocks, spec, vkind):
    """spec: per axis 'i' | (ps, pe, step); vkind: 'exact' | 'ones' (length-1 axes) | 'scalar' | 'lastaxis'"""
    rank = len(blocks)

    def body(E):
        w = W(E)
        Coll._n = 0
        log = BoundsLog()
        chunks = tuple(tuple(E.int(f"c{a}_{i}", 1) for i in range(m)) for a, m in enumerate(blocks))
        X = leaf("X", tuple(sum(c) for c in chunks), log=log)
        shape = X.shape
        raw = tuple(E.int(f"i{k}") if s == "i" else E.slice(mk(E, f"s{k}a", s[0]), mk(E, f"s{k}b", s[1]), s[2])
                    for k, s in enumerate(spec))
        ints_ok = AND(*[int_in_range(r, n) for r, n in zip(raw, shape) if not hasattr(r, "start")])
        # NumPy's selection
        tri = [slice_indices(r.start, r.stop, r.step, n) if hasattr(r, "start") else None for r, n in zip(raw, shape)]
        sel_shape = [range_len(*t) for t in tri if t is not None]
        if vkind == "exact":
            vshape = tuple(sel_shape)
        elif vkind == "ones":
            vshape = tuple(1 for _ in sel_shape)
        elif vkind == "scalar":
            vshape = ()
        else:  # only the last selected axis
            vshape = tuple(sel_shape[-1:])
            # documented limitation: "Empty slices can only be assigned size 1 values"
            for d in sel_shape[:-1]:
                E.assume(d >= 1)
        # the value has a definite (non-negative) shape; symbolic extents are fresh variables tied to the selection
        vdims = []
        for j, d in enumerate(vshape):
            if isinstance(d, int):
                vdims.append(d)
            else:
                v = E.int(f"v{j}", 0)
                E.assume(v == d)
                vdims.append(v)
        V = leaf("V", tuple(vdims), log=log)
        x = Coll("x", X, chunks)
        val = Coll("v", V, tuple((d,) for d in V.shape))
        try:
            dsk = w.fn(SI, "setitem_array_expr")("out", x, raw, val)
        except IndexError:
            E.ensure("IndexError-only-when-out-of-range", NOT(ints_ok))
            return
        except ValueError:
            # the one documented refusal: "Empty slices can only be assigned size 1 values" (an error, never wrong
            # data); anything else NumPy accepts must not raise
            empty_axis = OR(*[d == 0 for d in sel_shape]) if sel_shape else False
            big_value = OR(*[d > 1 for d in vdims]) if vdims else False
            E.ensure("ValueError-only-for-the-documented-empty-slice-refusal", AND(empty_axis, big_value),
                     site="parse_and_validate_assignment")
            return
        E.ensure("out-of-range-int-raises", ints_ok)
        dsk = dict(dsk)
        dsk.update(x.__dask_graph__())
        dsk.update(val.__dask_graph__())
        layer_keys_ok(E, dsk, "out", x.numblocks)
        whole, _r = run_blocks(E, dsk, "out", chunks, kernels=dict(setitem=_setitem_kernel))
        for lab, cond in log.items:
            E.ensure(lab, cond)
        # reference: NumPy assignment on the whole array
        Vb = V.broadcast_to(sel_shape) if V.ndim <= len(sel_shape) else V

        def at(pos):
            conds, idx = [], []
            for p, r, t in zip(pos, raw, tri):
                if t is None:
                    n = shape[len(conds) and 0] if False else None
                    conds.append(None)
                    continue
                a, b, s = t
                a, b = _z(a), _z(b)
                if s > 0:
                    conds.append(z3.And(p >= a, p < b, (p - a) % s == 0))
                    idx.append((p - a) / s)
                else:
                    conds.append(z3.And(p <= a, p > b, (a - p) % (-s) == 0))
                    idx.append((a - p) / (-s))
            cs = []
            for k_, (p, r) in enumerate(zip(pos, raw)):
                if conds[k_] is None:
                    n = shape[k_]
                    cs.append(p == z3.If(_z(r) < 0, _z(r) + _z(n), _z(r)))
                else:
                    cs.append(conds[k_])
            return z3.If(z3.And(*cs), Vb._at(tuple(idx)), X._at(pos))

        same_array(E, whole, SArr(shape, at), label="assignment")

    def api(values):
        import dask_array as da

        cs = tuple(tuple(values[f"c{a}_{i}"] for i in range(m)) for a, m in enumerate(blocks))
        shape = tuple(sum(c) for c in cs)
        if int(np.prod(shape)) > 20000:
            return dict(ok=False, detail="too large for an API replay; unit-level replay stands")
        raw = tuple(values[f"i{k}"] if s == "i" else slice(values.get(f"s{k}a"), values.get(f"s{k}b"), s[2]) for k, s in enumerate(spec))
        data = np.arange(int(np.prod(shape)), dtype="f8").reshape(shape)
        try:
            sel = data[raw]
        except IndexError:
            try:
                d = da.from_array(data.copy(), chunks=cs)
                d[raw] = 1.0
                d.compute(scheduler="sync")
            except IndexError:
                return dict(ok=True, detail="both raise IndexError")
            return dict(ok=False, detail="numpy raises IndexError, dask_array does not")
        ss = sel.shape
        vshape = ss if vkind == "exact" else tuple(1 for _ in ss) if vkind == "ones" else () if vkind == "scalar" else ss[-1:]
        v = -(np.arange(int(np.prod(vshape)) if vshape else 1, dtype="f8") + 1).reshape(vshape)
        want = data.copy()
        want[raw] = v
        d = da.from_array(data.copy(), chunks=cs)
        before = d[...] + 0
        try:
            d[raw] = v
            got = d.compute(scheduler="sync")
        except Exception as ex:  # NumPy accepted the assignment above
            return dict(ok=False, detail=f"numpy assigns, dask_array raises {type(ex).__name__}: {ex}; chunks={cs} index={raw} vshape={vshape}"[:400])
        ok = bool(np.array_equal(got, want)) and bool(np.array_equal(before.compute(scheduler="sync"), data))
        return dict(ok=ok, detail=f"chunks={cs} index={raw} vshape={vshape} got={got.tolist()} want={want.tolist()}"[:400])

    nm = "x".join(map(str, blocks))
    cost = 1.0
    for s in spec:
        if isinstance(s, tuple):
            cost *= 3 * (2 if (s[2] or 1) < 0 else 1) * abs(s[2] or 1)
    return Instance(f"setitem[blocks={nm},idx={spec},value={vkind}]", body, dict(blocks=blocks, index=spec, value=vkind),
                    unit="setitem_array_expr + parse_assignment_indices", api_replay=api, cost=cost * max(blocks), wall_s=900)


def instances(tier):
    q = tier == "quick"
    out = []
    steps = [None, 1, 2, -1, -2] if q else [None, 1, 2, 3, -1, -2, -3]
    for m in ([1, 2, 3] if q else [1, 2, 3, 4]):
        for st in steps:
            if q and m == 3 and st in (2, -2):
                continue
            for ps, pe in itertools.product((0, 1), repeat=2):
                if q and m >= 2 and (ps, pe) == (0, 0) and st in (2, -2):
                    continue
                out.append(inst_assign((m,), ((ps, pe, st),), "exact"))
        out.append(inst_assign((m,), ("i",), "scalar"))
    out.append(inst_assign((2,), ((1, 1, None),), "scalar"))
    out.append(inst_assign((2,), ((1, 1, -1),), "ones"))
    out.append(inst_assign((2,), ((1, 1, 2),), "ones"))
    out.append(inst_assign((2, 2), ((1, 1, None), (1, 1, None)), "exact"))
    out.append(inst_assign((2, 2), ("i", (1, 1, None)), "exact"))
    out.append(inst_assign((2, 2), ((1, 1, -1), "i"), "exact"))
    out.append(inst_assign((2, 2), ((1, 1, None), (1, 0, -1)), "lastaxis"))
    out.append(inst_assign((2, 1), ((1, 1, 2), (0, 1, None)), "scalar"))
    out.append(inst_assign((2, 2), ("i", "i"), "scalar"))
    if not q:
        out.append(inst_assign((2, 2), ((1, 1, -2), (1, 1, 2)), "exact"))
        out.append(inst_assign((2, 3), ((1, 1, None), (1, 1, -1)), "ones"))
        out.append(inst_assign((3, 3), ((1, 1, None), (1, 1, None)), "lastaxis"))
    return out
