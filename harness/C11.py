"""C11 -- In-place operations only change the array they are applied to (assignment arithmetic).

``x[index] = value`` builds its graph with ``setitem_array_expr`` (``parse_and_validate_assignment``,
``parse_assignment_indices``, the per-block slice arithmetic).  That real code runs on symbolic chunk
sizes and index bounds; the emitted tasks (``setitem`` on the touched blocks, aliases elsewhere) are
executed on symbolic arrays with NumPy's assignment semantics and the assembled result is compared,
at a skolem position, with the NumPy meaning of the same assignment: selected positions hold the
(broadcast) value element of the right rank, every other position keeps x's element."""
from __future__ import annotations

import itertools

import numpy as np
import z3

from symx import core
from symx.core import _z, range_len, slice_indices
from symx.graph import layer_keys_ok, run_blocks
from symx.oracle import AND, EQ, IMPLIES, ITE, NOT, OR, cumsum0, int_in_range
from symx.runner import Instance
from symx.sarr import BoundsLog, MArr, SArr, Shared, SharedWrite, leaf, mutable_copy, same_array, shared
from symx.world import SHIM_LIST, SymNp

from .common import unit_hashes, world

PROPERTY = "C11"
SI = "dask_array.slicing._setitem"
SU = "dask_array.slicing._utils"
MODS = [SI, SU]
UNITS = [("dask_array._core_utils", "_elemwise_handle_where"), (SU, "setitem"), (SI, "setitem_array_expr"), (SI, "parse_and_validate_assignment"), (SU, "parse_assignment_indices"),
         (SU, "normalize_index"), (SU, "normalize_slice"), (SU, "posify_index"), (SU, "check_index")]
STUBS = SHIM_LIST + [
    "array / value collections -> duck-typed symbolic collections (shape, chunks, keys; value[idx] is NumPy indexing of a "
    "symbolic array, one chunk)",
    "block kernel: the repository's own setitem(x, v, indices) runs on a buffer model of the block (symx.sarr.Shared: "
    "copy() is private and writable, view()/masked_array(copy=False) alias the block, writing into the block or an alias is "
    "an obligation failure); the assignment itself has NumPy semantics (value broadcast to the selection; obligations: "
    "integer index in range, value broadcasts to the selected shape); mask propagation of masked values is not modelled",
]
ASSUMPTIONS = [
    "rank (<=2), blocks per axis, index kinds (ints, slices of every None-pattern with steps in +-1..3), value shape kind "
    "(exact, broadcast length-1, scalar, lower rank) are concrete per instance; chunk sizes, bounds, ints symbolic/unbounded",
    "the value's shape is compatible with the selection (exact, length-1 axes, scalar, or trailing axes only)",
    "the documented refusal 'Empty slices can only be assigned size 1 values' (ValueError when the selection has an empty "
    "axis and the value more than one element) is accepted as a refusal: it is an error, not a wrong result",
    "buffer aliasing: the two block functions that write (setitem, _elemwise_handle_where for ufunc(where=, out=)) run on a "
    "buffer model in which every block they receive is shared with other tasks/collections -- they must write only private "
    "copies, which is what keeps previously derived collections and source arrays unchanged; NOT decided: "
    "compute_chunk_sizes, array / boolean / dask-array keys, the collection-level bookkeeping of out= (handle_out)",
]


def units():
    return unit_hashes(UNITS)


def bounds(tier):
    q = tier == "quick"
    return dict(rank=[1, 2], blocks_per_axis=[1, 2, 3], steps=[1, 2, -1, -2] if q else [1, 2, 3, -1, -2, -3], ints="unbounded")


class Coll:
    """duck-typed dask collection over a symbolic array"""

    _n = 0

    def __init__(self, name, whole, chunks, graph=None):
        self.name, self.whole, self.chunks = name, whole, chunks
        self.shape = whole.shape
        self.ndim = len(self.shape)
        self.numblocks = tuple(len(c) for c in chunks)
        self.npartitions = int(np.prod(self.numblocks)) if self.numblocks else 1
        self.dtype = np.dtype("f8")
        self._meta = np.empty((0,) * self.ndim)

    def __dask_keys__(self):
        def rec(prefix, ax):
            if ax == len(self.numblocks):
                return (self.name,) + tuple(prefix)
            return [rec(prefix + [i], ax + 1) for i in range(self.numblocks[ax])]

        return rec([], 0) if self.numblocks else [(self.name,)]

    def __dask_graph__(self):
        cs = [cumsum0(c) for c in self.chunks]
        dsk = {}
        for g in itertools.product(*[range(n) for n in self.numblocks]):
            dsk[(self.name,) + g] = self.whole[tuple(slice(c[i], c[i + 1]) for c, i in zip(cs, g))]
        return dsk

    def __getitem__(self, idx):
        Coll._n += 1
        sub = self.whole[idx]
        return Coll(f"{self.name}-sel{Coll._n}", sub, tuple((d,) for d in sub.shape))


class _NpMa(SymNp):
    """np for the cloned slicing utilities: the masked-array entry points the setitem kernel touches, on the buffer model --
    a masked view / masked_array(copy=False) of a block is an *alias* of it (mask propagation itself is not modelled)"""

    class ma:
        MaskedArray = type("MaskedArray", (), {})

        @staticmethod
        def isMA(x):
            return bool(getattr(x, "masked", False))

        @staticmethod
        def masked_array(x, *a, copy=False, **k):
            if isinstance(x, Shared):
                out = x.copy() if copy else x.view(_NpMa.ma.MaskedArray)
                out.masked = True
                return out
            return np.ma.masked_array(x, *a, copy=copy, **k)


def _real_setitem(E, w, masked_value=False):
    """the repository's own chunk function on a block other tasks also hold; obligation: it only ever writes a private copy"""
    fn = w.fn(SU, "setitem")

    def kernel(x, v, indices):
        if masked_value and isinstance(v, SArr):
            v = shared(v, masked=True)
        try:
            return fn(shared(x) if not isinstance(x, (Shared, MArr)) else x, v, list(indices))
        except SharedWrite:
            E.ensure("setitem-writes-only-a-private-copy", False)
            out = mutable_copy(x)
            out[tuple(indices)] = v
            return out

    return kernel


def W(E):
    w = world("C11", E.symbolic, MODS)
    w.ns[SU]["np"] = _NpMa()
    return w


def mk(E, name, present):
    return E.int(name) if present else None


def inst_assign(blocks, spec, vkind, masked_value=False):
    """spec: per axis 'i' | (ps, pe, step); vkind: 'exact' | 'ones' (length-1 axes) | 'scalar' | 'lastaxis'"""
    rank = len(blocks)

    def body(E):
        w = W(E)
        Coll._n = 0
        log = BoundsLog()
        chunks = tuple(tuple(E.int(f"c{a}_{i}", 1) for i in range(m)) for a, m in enumerate(blocks))
        X = leaf("X", tuple(sum(c) for c in chunks), log=log)
        shape = X.shape
        raw = tuple(E.int(f"i{k}") if s == "i" else E.slice(mk(E, f"s{k}a", s[0]), mk(E, f"s{k}b", s[1]), s[2])
                    for k, s in enumerate(spec))
        ints_ok = AND(*[int_in_range(r, n) for r, n in zip(raw, shape) if not hasattr(r, "start")])
        # NumPy's selection
        tri = [slice_indices(r.start, r.stop, r.step, n) if hasattr(r, "start") else None for r, n in zip(raw, shape)]
        sel_shape = [range_len(*t) for t in tri if t is not None]
        if vkind == "exact":
            vshape = tuple(sel_shape)
        elif vkind == "ones":
            vshape = tuple(1 for _ in sel_shape)
        elif vkind == "scalar":
            vshape = ()
        else:  # only the last selected axis
            vshape = tuple(sel_shape[-1:])
            # documented limitation: "Empty slices can only be assigned size 1 values"
            for d in sel_shape[:-1]:
                E.assume(d >= 1)
        # the value has a definite (non-negative) shape; symbolic extents are fresh variables tied to the selection
        vdims = []
        for j, d in enumerate(vshape):
            if isinstance(d, int):
                vdims.append(d)
            else:
                v = E.int(f"v{j}", 0)
                E.assume(v == d)
                vdims.append(v)
        V = leaf("V", tuple(vdims), log=log)
        x = Coll("x", X, chunks)
        val = Coll("v", V, tuple((d,) for d in V.shape))
        try:
            dsk = w.fn(SI, "setitem_array_expr")("out", x, raw, val)
        except IndexError:
            E.ensure("IndexError-only-when-out-of-range", NOT(ints_ok))
            return
        except ValueError:
            # the one documented refusal: "Empty slices can only be assigned size 1 values" (an error, never wrong
            # data); anything else NumPy accepts must not raise
            empty_axis = OR(*[d == 0 for d in sel_shape]) if sel_shape else False
            big_value = OR(*[d > 1 for d in vdims]) if vdims else False
            E.ensure("ValueError-only-for-the-documented-empty-slice-refusal", AND(empty_axis, big_value),
                     site="parse_and_validate_assignment")
            return
        E.ensure("out-of-range-int-raises", ints_ok)
        dsk = dict(dsk)
        dsk.update(x.__dask_graph__())
        dsk.update(val.__dask_graph__())
        layer_keys_ok(E, dsk, "out", x.numblocks)
        whole, _r = run_blocks(E, dsk, "out", chunks, kernels=dict(setitem=_real_setitem(E, w, masked_value)))
        for lab, cond in log.items:
            E.ensure(lab, cond)
        # reference: NumPy assignment on the whole array
        Vb = V.broadcast_to(sel_shape) if V.ndim <= len(sel_shape) else V

        def at(pos):
            conds, idx = [], []
            for p, r, t in zip(pos, raw, tri):
                if t is None:
                    n = shape[len(conds) and 0] if False else None
                    conds.append(None)
                    continue
                a, b, s = t
                a, b = _z(a), _z(b)
                if s > 0:
                    conds.append(z3.And(p >= a, p < b, (p - a) % s == 0))
                    idx.append((p - a) / s)
                else:
                    conds.append(z3.And(p <= a, p > b, (a - p) % (-s) == 0))
                    idx.append((a - p) / (-s))
            cs = []
            for k_, (p, r) in enumerate(zip(pos, raw)):
                if conds[k_] is None:
                    n = shape[k_]
                    cs.append(p == z3.If(_z(r) < 0, _z(r) + _z(n), _z(r)))
                else:
                    cs.append(conds[k_])
            return z3.If(z3.And(*cs), Vb._at(tuple(idx)), X._at(pos))

        same_array(E, whole, SArr(shape, at), label="assignment")

    def api(values):
        import dask_array as da

        cs = tuple(tuple(values[f"c{a}_{i}"] for i in range(m)) for a, m in enumerate(blocks))
        shape = tuple(sum(c) for c in cs)
        if int(np.prod(shape)) > 20000:
            return dict(ok=False, detail="too large for an API replay; unit-level replay stands")
        raw = tuple(values[f"i{k}"] if s == "i" else slice(values.get(f"s{k}a"), values.get(f"s{k}b"), s[2]) for k, s in enumerate(spec))
        data = np.arange(int(np.prod(shape)), dtype="f8").reshape(shape)
        try:
            sel = data[raw]
        except IndexError:
            try:
                d = da.from_array(data.copy(), chunks=cs)
                d[raw] = 1.0
                d.compute(scheduler="sync")
            except IndexError:
                return dict(ok=True, detail="both raise IndexError")
            return dict(ok=False, detail="numpy raises IndexError, dask_array does not")
        ss = sel.shape
        vshape = ss if vkind == "exact" else tuple(1 for _ in ss) if vkind == "ones" else () if vkind == "scalar" else ss[-1:]
        v = -(np.arange(int(np.prod(vshape)) if vshape else 1, dtype="f8") + 1).reshape(vshape)
        want = data.copy()
        want[raw] = v
        if masked_value:
            v = np.ma.masked_array(v, mask=np.zeros(np.shape(v), dtype=bool))
        src = data.copy()
        d = da.from_array(src, chunks=cs)
        before = d[...] + 0
        try:
            d[raw] = v
            got = d.compute(scheduler="sync")
        except Exception as ex:  # NumPy accepted the assignment above
            return dict(ok=False, detail=f"numpy assigns, dask_array raises {type(ex).__name__}: {ex}; chunks={cs} index={raw} vshape={vshape}"[:400])
        untouched = bool(np.array_equal(src, data))  # the array x was built from
        ok = bool(np.array_equal(np.ma.getdata(got), want)) and bool(np.array_equal(before.compute(scheduler="sync"), data)) and untouched
        return dict(ok=ok, detail=f"chunks={cs} index={raw} vshape={vshape} source untouched={untouched} got={np.ma.getdata(got).tolist()} "
                                  f"want={want.tolist()}"[:400])

    nm = "x".join(map(str, blocks))
    cost = 1.0
    for s in spec:
        if isinstance(s, tuple):
            cost *= 3 * (2 if (s[2] or 1) < 0 else 1) * abs(s[2] or 1)
    return Instance(f"setitem[blocks={nm},idx={spec},value={vkind}{',masked value' if masked_value else ''}]", body,
                    dict(blocks=blocks, index=spec, value=vkind, masked_value=masked_value),
                    unit="setitem_array_expr + parse_assignment_indices", api_replay=api, cost=cost * max(blocks), wall_s=1800)


def inst_where_out(rank, owndata):
    """ufunc(a, b, where=mask, out=x): the block function `_elemwise_handle_where` receives x's block -- a buffer the
    persisted graph, x's earlier slices and copies also hold (owning its memory or a view of a source) -- and must produce
    where(mask, a + b, x) without writing into it"""
    def body(E):
        import dask_array._core_utils as CUm

        shape = tuple(E.int(f"n{a}", 1) for a in range(rank))
        A, B, X, M = (leaf(t, shape) for t in ("A", "B", "X", "M"))
        mask = M > 0
        out = shared(X, owndata=owndata)
        try:
            res = CUm._elemwise_handle_where(shared(A), shared(B), mask, out, elemwise_where_function=np.add)
        except SharedWrite:
            E.ensure("ufunc-writes-only-a-private-copy-of-out", False)
            return
        E.ensure("result-is-not-the-shared-block", res is not out)
        ref = SArr(shape, lambda idx: z3.If(mask._at(idx), A._at(idx) + B._at(idx), X._at(idx)))
        same_array(E, res, ref, label="where-out")
        same_array(E, out, X, label="out-block-unchanged", skolem="q")

    def api(values):
        import dask_array as da

        shape = tuple(values[f"n{a}"] for a in range(rank))
        if int(np.prod(shape)) > 5000 or 0 in shape:
            return dict(ok=False, detail="unit-level replay stands (API replay needs a small non-empty array)")
        n = int(np.prod(shape))
        x_np = (np.arange(n, dtype="f8") * 3).reshape(shape)
        mask_np = (np.arange(n) % 3 == 0).reshape(shape)
        x = (da.from_array(x_np.copy(), chunks=shape) * 1).persist(scheduler="sync") if owndata else da.from_array(x_np.copy(), chunks=shape)
        keep = x + 0
        np.add(x, 1000, where=da.from_array(mask_np, chunks=shape), out=x)
        ref = x_np.copy()
        np.add(ref, 1000, where=mask_np, out=ref)
        got = x.compute(scheduler="sync")
        again = x.compute(scheduler="sync")
        kept = keep.compute(scheduler="sync")
        ok = bool(np.array_equal(got, ref) and np.array_equal(again, ref) and np.array_equal(kept, x_np))
        return dict(ok=ok, detail=f"shape={shape} first={got.ravel()[:6].tolist()} second={again.ravel()[:6].tolist()} "
                                  f"earlier copy={kept.ravel()[:6].tolist()}")

    return Instance(f"where_out[rank={rank},block owns its data={owndata}]", body, dict(rank=rank, owndata=owndata),
                    unit="_elemwise_handle_where", api_replay=api)


def inst_assign_int_list(list_axis_chunks, positions):
    """x[i, [p0, p1, ...]] = v with v of shape (len(list),): an integer before an integer-list key.  The list axis has a
    concrete chunking and concrete positions (the planner works on them with NumPy array code); the integer, the other axis'
    chunk sizes and the data are symbolic"""
    def body(E):
        w = W(E)
        Coll._n = 0
        log = BoundsLog()
        rows = tuple(E.int(f"c0_{i}", 1) for i in range(2))
        chunks = (rows, tuple(list_axis_chunks))
        X = leaf("X", (sum(rows), sum(list_axis_chunks)), log=log)
        i0 = E.int("i0")
        E.assume(int_in_range(i0, X.shape[0]))
        V = leaf("V", (len(positions),), log=log)
        x = Coll("x", X, chunks)
        val = Coll("v", V, ((len(positions),),))
        raw = (i0, np.array(positions))
        dsk = dict(w.fn(SI, "setitem_array_expr")("out", x, raw, val))
        dsk.update(x.__dask_graph__())
        dsk.update(val.__dask_graph__())
        layer_keys_ok(E, dsk, "out", x.numblocks)
        whole, _r = run_blocks(E, dsk, "out", chunks, kernels=dict(setitem=_real_setitem(E, w)))
        for lab, cond in log.items:
            E.ensure(lab, cond)
        n0 = X.shape[0]
        row = z3.If(_z(i0) < 0, _z(i0) + _z(n0), _z(i0))

        def at(pos):
            out = X._at(pos)
            for j, p in enumerate(positions):  # later entries win, as in NumPy
                out = z3.If(z3.And(pos[0] == row, pos[1] == p), V._at((z3.IntVal(j),)), out)
            return out

        same_array(E, whole, SArr(X.shape, at), label="assignment")

    def api(values):
        import dask_array as da

        rows = tuple(values[f"c0_{i}"] for i in range(2))
        if sum(rows) > 2000:
            return dict(ok=False, detail="too large for an API replay; unit-level replay stands")
        shape = (sum(rows), sum(list_axis_chunks))
        data = np.arange(int(np.prod(shape)), dtype="f8").reshape(shape)
        v = -(np.arange(len(positions), dtype="f8") + 1)
        want = data.copy()
        want[values["i0"], list(positions)] = v
        d = da.from_array(data.copy(), chunks=(rows, tuple(list_axis_chunks)))
        try:
            d[values["i0"], list(positions)] = v
            got = d.compute(scheduler="sync")
        except Exception as ex:
            return dict(ok=False, detail=f"numpy assigns, dask_array raises {type(ex).__name__}: {ex}"[:300])
        return dict(ok=bool(np.array_equal(got, want)), detail=f"rows={rows} i={values['i0']} positions={positions}")

    return Instance(f"setitem[int,list{list(positions)} over chunks {tuple(list_axis_chunks)}]", body,
                    dict(list_axis_chunks=list_axis_chunks, positions=positions), unit="setitem_array_expr (integer + integer-list key)",
                    api_replay=api)


def inst_mask_assign_history():
    """x[mask] = v with a lazy boolean mask, after x was materialized once (keys and lowered expression read): every cache of
    the old expression is dropped -- x's keys carry its new name, the graph it hands out afterwards computes where(mask, v, x),
    and so does a collection derived from x after the assignment"""
    def body(E):
        import operator

        from . import catalog

        w = catalog.W(E)
        x = catalog.source(w, E, "x", (2,))
        m = catalog.source(w, E, "m", (2,), chunks=x.node.chunks, dtype="bool")
        coll = w.fn(catalog.NC, "new_collection")(x.node)
        mask = w.fn(catalog.NC, "new_collection")(m.node)
        old_name = coll._name
        _ = coll._lowered_expr           # history: x was materialized ...
        _ = coll.__dask_keys__()         # ... and its keys were read
        v = -1.0  # (the value goes through np.asanyarray: a concrete float)
        coll[mask] = v
        E.ensure("x-has-a-new-name", coll._name != old_name)
        name = coll._name
        keys = [k for row in [coll.__dask_keys__()] for k in (row if isinstance(row, list) else [row])]
        E.ensure("keys-carry-the-new-name", all(k[0] == name for k in keys))
        low = coll._lowered_expr
        E.ensure("lowered-expression-is-the-new-one", low._name == name)
        X, M = x.ref, m.ref
        ref = SArr(X.shape, lambda idx: z3.If(M._at(idx) != 0, core.SymReal._r(v), X._at(idx)))
        dsk = dict(x.dsk)
        dsk.update(m.dsk)
        dsk.update(catalog._layers(low))
        whole, _r = run_blocks(E, dsk, low._name, coll.chunks, label="after-assignment")
        same_array(E, whole, ref, label="x-after-mask-assignment")
        child = catalog.p_elemwise(w, operator.neg, catalog.Prog(coll.expr, ref, dsk))
        cm = catalog.stages(E, w, child.node, {"materialized"})["materialized"]
        dsk2 = dict(dsk)
        dsk2.update(catalog._layers(cm))
        whole2, _r = run_blocks(E, dsk2, cm._name, child.node.chunks, label="child")
        same_array(E, whole2, child.ref, label="child-of-x-after-assignment", skolem="q")

    return Instance("mask_assignment_after_materialization", body, {}, unit="Array.__setitem__ (dask mask) + _replace_expr caches")


def inst_assign_dask_value(vblocks=2):
    """x[a:a+len(v)] = v with v a lazy collection of several chunks: the value's chunks are gathered into one block per
    touched block of x (ConcatenateArrayChunks), through the real SetItem layer, optimizer and kernels"""
    def body(E):
        from . import catalog

        w = catalog.W(E)
        x = catalog.source(w, E, "x", (2,))
        v = catalog.source(w, E, "v", (vblocks,))
        coll = w.fn(catalog.NC, "new_collection")(x.node)
        val = w.fn(catalog.NC, "new_collection")(v.node)
        n, nv = x.node.shape[0], v.node.shape[0]
        a = E.int("a", 0)
        E.assume(a + nv <= n)
        coll[E.slice(a, a + nv, None)] = val
        X, V = x.ref, v.ref
        ref = SArr(X.shape, lambda idx: z3.If(z3.And(idx[0] >= _z(a), idx[0] < _z(a + nv)), V._at((idx[0] - _z(a),)), X._at(idx)))
        low = coll._lowered_expr
        dsk = dict(x.dsk)
        dsk.update(v.dsk)
        dsk.update(catalog._layers(low))
        whole, _r = run_blocks(E, dsk, low._name, coll.chunks, label="after-assignment", kernels=dict(setitem=_real_setitem(E, W(E))))
        same_array(E, whole, ref, label="x-after-assigning-a-chunked-value")

    def api(values):
        import dask_array as da

        cx = tuple(values[f"x0_{i}"] for i in range(2))
        cv = tuple(values[f"v0_{i}"] for i in range(vblocks))
        a = values["a"]
        if sum(cx) > 5000:
            return dict(ok=False, detail="outside API replay range")
        X, V = np.arange(sum(cx), dtype="f8"), -1.0 - np.arange(sum(cv), dtype="f8")
        d = da.from_array(X.copy(), chunks=(cx,))
        d[a:a + len(V)] = da.from_array(V, chunks=(cv,))
        want = X.copy()
        want[a:a + len(V)] = V
        got = d.compute(scheduler="sync")
        return dict(ok=bool(np.array_equal(got, want)), detail=f"x chunks {cx}, value chunks {cv}, x[{a}:{a + len(V)}] = v: got {got[:8].tolist()}")

    return Instance(f"setitem[slice = lazy value of {vblocks} chunks]", body, dict(value_blocks=vblocks),
                    unit="SetItem._layer + setitem_array_expr + ConcatenateArrayChunks._layer", api_replay=api)


def inst_key_snapshot():
    """x[key] = v records the assignment lazily: whatever the SetItem expression keeps of the key must be the key's value at
    the time of the assignment -- not the caller's own mutable object (a dask collection that can be assigned to in place, an
    ndarray, a list), or a later in-place change to the key would rewrite the earlier assignment to x"""
    def body(E):
        import builtins

        import dask_array.io._from_array as FAm

        from . import catalog

        w = catalog.W(E)
        for kind in ("dask-int", "ndarray", "list"):
            x = catalog.source(w, E, "x" + kind[0], (2,), lo=2)
            coll = w.fn(catalog.NC, "new_collection")(x.node)
            if kind == "dask-int":
                meta = np.empty((0,), dtype="i8")
                node = w.space.make(FAm.FromArray, leaf("ix", (2,), dtype="i8"), ((2,),), _symx_attrs=dict(_meta=meta, chunks=((2,),), _name="ix"))
                key = w.fn(catalog.NC, "new_collection")(node)
            elif kind == "ndarray":
                key = np.array([0, 1])
            else:
                key = [0, 1]
            coll[key] = -1.0
            held = [n for n in w.space.created
                    if builtins.type(n).__dict__.get("_symx_real", builtins.type(n)).__name__ == "SetItem" and n.array is x.node]
            E.ensure(f"{kind}-assignment-recorded", len(held) >= 1)
            for n in held:
                ix = n.index if isinstance(n.index, tuple) else (n.index,)
                for k in ix:
                    mine = k is key or (isinstance(k, np.ndarray) and isinstance(key, np.ndarray) and np.shares_memory(k, key))
                    E.ensure(f"{kind}-key-is-a-snapshot-not-the-callers-object", not mine)

    def api(values):
        import dask_array as da

        bad = []
        x = da.from_array(np.arange(6), chunks=3)
        idx = da.from_array(np.array([0, 1]), chunks=2)
        x[idx] = -1
        idx[0] = 4
        if x.compute(scheduler="sync").tolist() != [-1, -1, 2, 3, 4, 5]:
            bad.append("dask-int key")
        x = da.from_array(np.arange(6), chunks=3)
        k = np.array([0, 1])
        x[k] = -5
        k[0] = 5
        if x.compute(scheduler="sync").tolist() != [-5, -5, 2, 3, 4, 5]:
            bad.append("ndarray key")
        x = da.from_array(np.arange(6), chunks=3)
        k = [0, 1]
        x[k] = -5
        k[0] = 5
        if x.compute(scheduler="sync").tolist() != [-5, -5, 2, 3, 4, 5]:
            bad.append("list key")
        return dict(ok=not bad, detail=f"x[key] = v; key[0] = other -- the earlier assignment moved with the key for: {bad}")

    return Instance("setitem_key_is_snapshotted", body, {}, unit="Array.__setitem__ -> SetItem", api_replay=api)


IDENTITY_SITE = "Array:identity-like-operation-returns-self"


def inst_derived_keep_value():
    """collections derived from x by operations that happen to select / keep everything (x[:], x[...], x[0:n] with the
    symbolic length n, +x, x.transpose() with the identity permutation, x.astype(x.dtype)) are collections of their own:
    after x's expression is replaced in place (what x[idx] = v, out=x and compute_chunk_sizes do) they still denote the
    earlier value"""
    def body(E):
        import operator

        from . import catalog

        w = catalog.W(E)
        x = catalog.source(w, E, "x", (2, 2))
        other = catalog.p_elemwise(w, operator.neg, x)
        coll = w.fn(catalog.NC, "new_collection")(x.node)
        n0 = x.node.shape[0]
        derived = {
            "x[:]": coll[:], "x[...]": coll[...], "x[0:n]": coll[E.slice(0, n0, None)], "x[:, :]": coll[:, :],
            "+x": +coll, "x.transpose((0,1))": coll.transpose((0, 1)), "x.astype(x.dtype)": coll.astype(coll.dtype),
        }
        old = coll._name
        coll._replace_expr(other.node)
        E.ensure("x-itself-changed", coll._name != old)
        for label, d in derived.items():
            # these operations return `self` (the test suite asserts `a is a[:]`), so the in-place replacement reaches them:
            # listed as a known finding under this site; a derived collection that is a distinct object and still changes
            # would be reported under no site
            site = IDENTITY_SITE if d is coll else None
            E.ensure(f"{label}-keeps-its-earlier-value", d._name == old and d.expr._name == old, site=site)

    def api(values):
        import dask_array as da

        X = np.arange(12.0).reshape(4, 3)
        bad = []
        for label, f in {"x[:]": lambda a: a[:], "x[...]": lambda a: a[...], "x[0:n]": lambda a: a[0:4], "x[:, :]": lambda a: a[:, :],
                         "+x": lambda a: +a, "x.transpose((0,1))": lambda a: a.transpose((0, 1)),
                         "x.astype(x.dtype)": lambda a: a.astype(a.dtype)}.items():
            a = da.from_array(X.copy(), chunks=2)
            d = f(a)
            a[1, 1] = 100.0
            if not np.array_equal(d.compute(scheduler="sync"), X):
                bad.append(label)
        return dict(ok=not bad, detail=f"derived collections that changed with x[1, 1] = 100: {bad}")

    return Instance("derived_collections_keep_their_value[identity-like operations]", body, {}, unit="Array.__getitem__/__pos__/"
                    "transpose/astype + _replace_expr", api_replay=api)


def _program_body(E, w, prog):
    """ufunc(..., where=mask, out=o) programs through the real Elemwise node, optimizer and kernels: the result is
    where(mask, op(...), o) -- also when two such calls that differ only in their out= target meet in one graph"""
    from . import catalog

    for stage in ("materialized", "materialized_off"):
        m = catalog.stages(E, w, prog.node, {stage})[stage]
        whole, dsk, r = catalog.run_tree(E, m, prog.node.chunks, stage, check_shapes=True)
        same_array(E, whole, prog.ref, label=f"{stage}-values", skolem=f"p{stage[-1]}")


def _program_instances(tier):
    from . import catalog

    return catalog.make_instances(tier, "C11", _program_body, "Elemwise(where=, out=) naming, lowering, _elemwise_handle_where",
                                  select=lambda name: "where=" in name)


def instances(tier):
    q = tier == "quick"
    out = _program_instances(tier) + [inst_derived_keep_value(), inst_mask_assign_history(), inst_assign_dask_value(2), inst_key_snapshot(), inst_assign_int_list((3, 3), (1, 2, 4)),
                                      inst_assign_int_list((2, 2), (3, 0))]
    steps = [None, 1, 2, -1, -2] if q else [None, 1, 2, 3, -1, -2, -3]
    for m in ([1, 2, 3] if q else [1, 2, 3, 4]):
        for st in steps:
            if q and m == 3 and st in (2, -2):
                continue
            for ps, pe in itertools.product((0, 1), repeat=2):
                if q and m >= 2 and (ps, pe) == (0, 0) and st in (2, -2):
                    continue
                out.append(inst_assign((m,), ((ps, pe, st),), "exact"))
        out.append(inst_assign((m,), ("i",), "scalar"))
    # a stride of 3 crossing block edges off the stride (the local start inside later blocks)
    out.append(inst_assign((3,), ((0, 0, 3),), "scalar"))
    out.append(inst_assign((2,), ((1, 1, -3),), "exact"))
    out.append(inst_assign((2,), ((1, 1, None),), "scalar"))
    out.append(inst_assign((2,), ((1, 1, -1),), "ones"))
    out.append(inst_assign((2,), ((1, 1, 2),), "ones"))
    out.append(inst_assign((2, 2), ((1, 1, None), (1, 1, None)), "exact"))
    out.append(inst_assign((2, 2), ("i", (1, 1, None)), "exact"))
    out.append(inst_assign((2, 2), ((1, 1, -1), "i"), "exact"))
    out.append(inst_assign((2, 2), ("i", (1, 1, -1)), "exact"))  # an integer before a reversed slice
    out.append(inst_assign((2, 2), ((1, 1, None), (1, 0, -1)), "lastaxis"))
    out.append(inst_assign((2, 1), ((1, 1, 2), (0, 1, None)), "scalar"))
    out.append(inst_assign((2, 2), ("i", "i"), "scalar"))
    for rank in (1, 2):
        out.append(inst_where_out(rank, True))
        out.append(inst_where_out(rank, False))
    # a masked value assigned into a plain array: the kernel turns the block into a masked array before writing
    out.append(inst_assign((2,), ((1, 1, None),), "exact", masked_value=True))
    out.append(inst_assign((2,), ("i",), "scalar", masked_value=True))
    out.append(inst_assign((2, 2), ("i", (1, 1, None)), "exact", masked_value=True))
    if not q:
        out.append(inst_assign((2, 2), ((1, 1, -2), (1, 1, 2)), "exact"))
        out.append(inst_assign((2, 3), ((1, 1, None), (1, 1, -1)), "ones"))
        out.append(inst_assign((3, 3), ((1, 1, None), (1, 1, None)), "lastaxis"))
    return out
