"""C08 -- Optimization terminates and is idempotent (catalogue programs, symbolic sizes).

The repository's own optimizer (dask's simplify / lower drivers over the repository's rewrite methods, and fuse) runs on
trees of symbolic nodes.  On every feasible path -- i.e. for every chunk-size / bound assignment of that path -- it
terminates without raising, optimizing the optimized expression again returns an expression of the same name, and the two
self-declining rechunk rewrites return None on their own output."""
from __future__ import annotations

from . import catalog
from .common import unit_hashes
from .C02 import UNITS as _U

PROPERTY = "C08"
UNITS = _U
STUBS = catalog.STUBS
ASSUMPTIONS = [
    "programs are the enumerated catalogue (harness/catalog.py); every program is computable without optimization (its raw "
    "form lowers and executes -- checked); chunk sizes and bounds are symbolic, so 'terminates' means: on every feasible path "
    "of the symbolic execution the real drivers reach their fixpoint (a non-terminating rewrite loop would exhaust the "
    "instance budget and be reported inconclusive, never as success)",
    "names are structural digests standing in for content hashes (same structure <=> same name)",
]


def units():
    return unit_hashes(UNITS)


def bounds(tier):
    return dict(programs=sorted(catalog.programs(tier)), sizes="unbounded")


def _body(E, w, prog):
    raw = catalog.stages(E, w, prog.node, {"raw"})["raw"]
    catalog.run_tree(E, raw, raw.chunks, "raw")  # computable without optimization
    opt = prog.node.optimize()                    # simplify -> lower -> fuse; must not raise
    again = opt.optimize()
    E.ensure("optimize-is-idempotent", again._name == opt._name)
    s = prog.node.simplify()
    E.ensure("simplify-is-idempotent", s.simplify()._name == s._name)
    low = s.lower_completely()
    E.ensure("lower-is-idempotent", low.lower_completely()._name == low._name)
    catalog.run_tree(E, opt, opt.chunks, "optimized")  # and the optimized program still computes
    m = w.fn(catalog.MT, "_materialize")(prog.node, True)
    E.ensure("materialize-of-materialized-is-itself", w.fn(catalog.MT, "_materialize")(m, True) is m)


def instances(tier):
    return catalog.make_instances(tier, "C08", _body, "simplify / lower / fuse drivers on symbolic trees")
