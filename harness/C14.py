"""C14 -- Rechunking yields the requested chunks with unchanged values (index arithmetic of
the crosswalk, the task layer, and the rechunk pushdown rewrites)."""
from __future__ import annotations

import itertools

from symx.oracle import AND, EQ, IMPLIES, ITE, NOT, OR, cumsum0
import numpy as np

from symx.runner import Instance
from symx.world import SHIM_LIST

from .common import Cfg, Fake, Rec, rec, unit_hashes, world

PROPERTY = "C14"
R = "dask_array._rechunk"
U = "dask_array.slicing._utils"
MODS = [R, U, "dask_array._core_utils"]
UNITS = [(R, "cumdims_label"), (R, "_breakpoints"), (R, "_intersect_1d"), (R, "old_to_new"), (R, "intersect_chunks"),
         (R, "_compute_rechunk"), (R, "_convert_to_task_refs"), (R, "_validate_rechunk"),
         (R, "Rechunk._pushdown_through_slice"), (R, "Rechunk._pushdown_through_concatenate"),
         (R, "Rechunk._pushdown_through_transpose"), (R, "Rechunk._pushdown_through_expand_dims"),
         (U, "new_blockdim"), (U, "_slice_1d")]
STUBS = SHIM_LIST + [
    "Task/Alias/TaskRef/List -> recorders", "TasksRechunk/Rechunk/SliceSlicesIntegers/Transpose/ExpandDims -> recorders",
    "Concatenate -> FakeConcat whose .chunks is the reference definition (concatenation of the parts' chunks)",
    "new_collection(part).rechunk(spec).expr -> part with chunks == spec (what C14(a,b) establish for a rechunk)",
    "dask.config -> stub (array.rechunk.method = 'tasks')",
]
ASSUMPTIONS = [
    "block counts, rank (<=2), index kinds are concrete per instance; chunk sizes / slice bounds unbounded integers",
    "old and new chunkings have equal per-axis sums (what Rechunk.chunks/_validate_rechunk enforce before planning)",
    "balance=True: decided on concrete chunk-size lists only (rechunk_balance instances: advertised = legacy dask's balanced "
    "chunks, kept by simplify and lowering through elemwise / transpose / expand_dims / rechunk fusion, values unchanged)",
    "'auto'/byte specs (C16), p2p and the planner (C15) are outside this check",
]


def units():
    return unit_hashes(UNITS)


def bounds(tier):
    q = tier == "quick"
    return dict(old_blocks=[1, 2, 3] if q else [1, 2, 3, 4, 5], new_blocks=[1, 2, 3] if q else [1, 2, 3, 4, 5],
                rank=[1, 2], sizes="unbounded; >=1 (quick), >=0 in thorough zero-width instances")


class TasksRechunkRec(Rec):
    def __init__(self, *a):
        super().__init__("tasksrechunk", *a)


class RechunkRec(Rec):
    def __init__(self, *a):
        super().__init__("rechunk", *a)


class SSIRec(Rec):
    def __init__(self, *a):
        super().__init__("ssi", *a)


class FakeConcat:
    """Concatenate stand-in: constructor signature of the real class, reference .chunks"""

    def __init__(self, first, axis, meta, *rest):
        self.args = [first, *rest]
        self.axis = axis
        self._meta = meta
        bds = [a.chunks for a in self.args]
        cat = ()
        for bd in bds:
            cat = cat + tuple(bd[axis])
        self.chunks = tuple(bds[0][:axis]) + (cat,) + tuple(bds[0][axis + 1:])
        self.ndim = len(self.chunks)


class Part:
    def __init__(self, name, chunks, pushdown=False, origin=None):
        self._name = name
        self.chunks = tuple(tuple(c) for c in chunks)
        self._can_rechunk_pushdown = pushdown
        self.origin = origin
        self.ndim = len(self.chunks)

    def _accept_rechunk(self, spec, **kw):
        return Part(self._name + "-read", spec, True, origin=self)


class _Coll:
    def __init__(self, e):
        self.e = e

    def rechunk(self, spec):
        return Fake(expr=Part(self.e._name + "-rc", spec, self.e._can_rechunk_pushdown, origin=self.e))


def W(E):
    cfg = Cfg({"array.rechunk.method": "tasks"})
    return world("C14", E.symbolic, MODS, extra=dict(
        Task=rec("task"), Alias=rec("alias"), TaskRef=lambda k: ("ref", k), List=lambda *a: list(a), config=cfg,
        TasksRechunk=TasksRechunkRec, SliceSlicesIntegers=SSIRec, Concatenate=FakeConcat,
        new_collection=lambda e: _Coll(e), Transpose=rec("transpose"), ExpandDims=rec("expand")),
        extra_by_module={R: dict(Rechunk=RechunkRec)})


def sym_chunks(E, prefix, m, lo=1):
    return tuple(E.int(f"{prefix}{i}", lo) for i in range(m))


# ------------------------------------------------------------------ (a) crosswalk


def crosswalk_ok(E, old, new, res, label="crosswalk", lo=1):
    """res = old_to_new(...)[axis]: each new block covered exactly once, in order, by in-bounds
    contiguous pieces whose global positions are consecutive."""
    if len(res) != len(new):
        E.ensure(f"{label}-count", False)
        return
    cum_old = cumsum0(old)
    pos = 0
    conj = []
    for j in range(len(new)):
        if len(res[j]) < 1:
            E.ensure(f"{label}-nonempty", False)
            return
        for (i, sl) in res[j]:
            if not (isinstance(i, int) and 0 <= i < len(old)):
                E.ensure(f"{label}-old-index-in-grid", False)
                return
            a, b = sl.start, sl.stop
            conj += [a >= 0, (b > a) if lo >= 1 else (b >= a), b <= old[i], cum_old[i] + a == pos,
                     sl.step is None or sl.step == 1]
            pos = pos + (b - a)
        conj.append(pos == sum(new[:j + 1]))
    E.ensure(label, AND(*conj))


def inst_crosswalk(mo, mn, lo=1):
    def body(E):
        old, new = sym_chunks(E, "o", mo, lo), sym_chunks(E, "n", mn, lo)
        E.assume(sum(old) == sum(new))
        if lo == 0:
            E.assume(sum(old) >= 1)
        res = W(E).fn(R, "old_to_new")((old,), (new,))[0]
        E.observe("crosswalk", [[(i, sl) for i, sl in blk] for blk in res])
        crosswalk_ok(E, old, new, res, lo=lo)

    return Instance(f"old_to_new[old={mo},new={mn},min={lo}]", body, dict(old_blocks=mo, new_blocks=mn, min_chunk=lo),
                    unit="old_to_new", cost=mo * mn)


# ------------------------------------------------------------------ (b) the task layer


def _resolve(layer, ref, old_chunks):
    """-> (old block index tuple, per-axis (start, stop)) of a reference inside a merge task"""
    key = ref[1] if isinstance(ref, tuple) and ref and ref[0] == "ref" else ref
    if key in layer and isinstance(layer[key], Rec) and layer[key].kind == "task":
        _k, fn, src, slices = layer[key].a
        src = src[1]
        return tuple(src[1:]), tuple((s.start, s.stop) for s in slices), src[0]
    return tuple(key[1:]), tuple((0, old_chunks[a][i]) for a, i in enumerate(key[1:])), key[0]


def inst_layer(mo, mn):
    """mo, mn: tuples of block counts per axis"""
    nd = len(mo)

    def body(E):
        old = tuple(sym_chunks(E, f"o{a}_", m) for a, m in enumerate(mo))
        new = tuple(sym_chunks(E, f"n{a}_", m) for a, m in enumerate(mn))
        for a in range(nd):
            E.assume(sum(old[a]) == sum(new[a]))
        mname, out_chunks, layer = W(E).fn(R, "_compute_rechunk")("x", old, new, 0, "rechunk-merge-y")
        E.ensure("returns-target", AND(mname == "rechunk-merge-y", EQ(out_chunks, new)))
        grid = list(itertools.product(*[range(m) for m in mn]))
        merge_keys = [k for k in layer if k[0] == mname]
        E.ensure("key-grid", sorted(merge_keys) == sorted((mname,) + g for g in grid))
        split_keys = [k for k in layer if k[0] != mname]
        used_splits = []
        cum_old = [cumsum0(o) for o in old]
        cum_new = [cumsum0(n) for n in new]
        for g in grid:
            t = layer[(mname,) + g]
            if t.kind == "alias":
                nested = t.a[1]
                shape = (1,) * nd
                flat = [nested]
            else:
                _key, fn, nested = t.a
                # nested lists of refs, depth nd
                shape = []
                cur = nested
                for _ in range(nd):
                    shape.append(len(cur))
                    cur = cur[0]
                flat = []

                def walk(x, d):
                    if d == nd:
                        flat.append(x)
                    else:
                        for y in x:
                            walk(y, d + 1)

                walk(nested, 0)
            pieces = {}
            for pos, ref in zip(itertools.product(*[range(s) for s in shape]), flat):
                k = ref[1] if isinstance(ref, tuple) and ref and ref[0] == "ref" else ref
                if k in split_keys:
                    used_splits.append(k)
                oi, spans, src_name = _resolve(layer, ref, old)
                if src_name != "x" or len(oi) != nd or not all(0 <= oi[a] < mo[a] for a in range(nd)):
                    E.ensure("references-old-grid", False)
                    return
                pieces[pos] = (oi, spans)
            # per axis: piece info depends only on the coordinate along that axis, and the
            # sequence of pieces covers [cum_new[j], cum_new[j+1]) consecutively
            for a in range(nd):
                seq = {}
                for pos, (oi, spans) in pieces.items():
                    cur = (oi[a], spans[a])
                    if pos[a] in seq:
                        E.ensure("grid-structure", AND(seq[pos[a]][0] == cur[0], EQ(seq[pos[a]][1], cur[1])))
                    else:
                        seq[pos[a]] = cur
                at = cum_new[a][g[a]]
                conj = []
                for r in range(shape[a]):
                    i, (s0, s1) = seq[r]
                    conj += [s0 >= 0, s1 > s0, s1 <= old[a][i], cum_old[a][i] + s0 == at]
                    at = at + (s1 - s0)
                conj.append(at == cum_new[a][g[a] + 1])
                E.ensure(f"provenance-axis{a}", AND(*conj))
        E.ensure("split-keys-unique-and-used", sorted(set(used_splits)) == sorted(split_keys) and len(used_splits) == len(split_keys))

    nm = "x".join(map(str, mo)) + "->" + "x".join(map(str, mn))
    c = 1
    for m in mo + mn:
        c *= m
    return Instance(f"_compute_rechunk[{nm}]", body, dict(old_blocks=mo, new_blocks=mn), unit="_compute_rechunk+intersect_chunks",
                    cost=c, wall_s=600)


# ------------------------------------------------------------------ (c) slice o rechunk composition


def inst_through_slice(m, k, with_int_axis=False):
    def body(E):
        import dask_array._rechunk as Rm

        w = W(E)
        old = sym_chunks(E, "c", m)
        size = sum(old)
        a, b = E.int("a"), E.int("b")
        tgt = sym_chunks(E, "t", k)
        idx = E.slice(a, b, None)
        from symx.core import slice_indices

        start, stop, _ = slice_indices(a, b, None, size)
        E.assume(sum(tgt) == ITE(stop > start, stop - start, 0))
        if with_int_axis:
            other = sym_chunks(E, "d", 2)
            i = E.int("i", 0)
            E.assume(i < sum(other))
            x = Fake(chunks=(other, old), shape=(sum(other), size), ndim=2, _name="x")
            index = (i, idx)
            axis = 1
        else:
            x = Fake(chunks=(old,), shape=(size,), ndim=1, _name="x")
            index = (idx,)
            axis = 0
        slc = Fake(array=x, index=index, chunks=(tgt,))
        me = Fake(method=None, array=slc, chunks=(tgt,), threshold=None, block_size_limit=None)
        res = w.method(Rm.Rechunk, "_pushdown_through_slice")(me)
        if res is None:
            E.observe("declined", True)
            return True
        if not isinstance(res, SSIRec):
            return False
        inner, out_index, allow = res.a
        if not isinstance(inner, TasksRechunkRec) or inner.a[0] is not x:
            return False
        expanded = inner.a[1]
        E.observe("expanded", [list(e) for e in expanded])
        if len(expanded) != x.ndim or len(out_index) != x.ndim:
            return False
        E.ensure("index-preserved", AND(allow is True, EQ(tuple(out_index), tuple(index))))
        if with_int_axis:
            E.ensure("int-axis-untouched", EQ(tuple(expanded[0]), tuple(other)))
        ex = expanded[axis]
        E.ensure("expanded-valid", AND(sum(ex) == size, *[c > 0 for c in ex]))
        opts = []
        for p in range(0, len(ex) - k + 1):
            opts.append(AND(sum(ex[:p]) == start, *[ex[p + r] == tgt[r] for r in range(k)]))
        E.ensure("slice-of-expanded-is-target", OR(*opts) if opts else False)
        # integration: the real chunk computation for the composed form
        nb = w.fn(U, "new_blockdim")(size, ex, w.fn(U, "normalize_slice")(idx, size))
        E.ensure("composed-chunks", EQ(tuple(nb), tuple(tgt)))

    return Instance(f"Rechunk._pushdown_through_slice[blocks={m},target={k},int_axis={with_int_axis}]", body,
                    dict(blocks=m, target_blocks=k, int_axis=with_int_axis), unit="Rechunk._pushdown_through_slice",
                    cost=m * k * 2, wall_s=600)


# ------------------------------------------------------------------ (d) concatenate redistribution


def run_through_concat(E, w, part_blocks, tgt_blocks, off_blocks, pushdown=True):
    import dask_array._rechunk as Rm

    nparts = len(part_blocks)
    parts_ax = [sym_chunks(E, f"p{i}_", m) for i, m in enumerate(part_blocks)]
    off_old = sym_chunks(E, "q", off_blocks[0])
    off_new = sym_chunks(E, "u", off_blocks[1])
    tgt = sym_chunks(E, "t", tgt_blocks)
    total = sum(sum(p) for p in parts_ax)
    E.assume(sum(tgt) == total)
    E.assume(sum(off_old) == sum(off_new))
    parts = [Part(f"L{i}", (parts_ax[i], off_old), pushdown) for i in range(nparts)]
    concat = FakeConcat(parts[0], 0, None, *parts[1:])
    target = (tgt, off_new)
    me = Fake(array=concat, method=None, chunks=target, threshold=None, block_size_limit=None)
    res = w.method(Rm.Rechunk, "_pushdown_through_concatenate")(me)
    return parts, parts_ax, target, res


def check_concat_result(E, parts_ax, target, res):
    if isinstance(res, RechunkRec):
        new_concat, t2 = res.a[0], res.a[1]
        E.ensure("residual-target", EQ(t2, target))
        E.ensure("residual-flags", AND(res.a[4] is False))
    else:
        new_concat = res
        E.ensure("direct-result-has-target-chunks", EQ(new_concat.chunks, target))
    if not isinstance(new_concat, FakeConcat) or len(new_concat.args) != len(parts_ax):
        E.ensure("concat-structure", False)
        return None
    E.ensure("axis-preserved", new_concat.axis == 0)
    for i, (arr, ext) in enumerate(zip(new_concat.args, parts_ax)):
        spec = arr.chunks
        E.ensure(f"part{i}-derived-from-part{i}", getattr(arr, "origin", None) is not None and arr.origin._name == f"L{i}")
        E.ensure(f"part{i}-extent", AND(sum(spec[0]) == sum(ext), *[c > 0 for c in spec[0]]))
        E.ensure(f"part{i}-off-axis", EQ(tuple(spec[1]), tuple(target[1])))
    return new_concat


def inst_through_concat(part_blocks, tgt_blocks, off_blocks):
    def body(E):
        w = W(E)
        parts, parts_ax, target, res = run_through_concat(E, w, part_blocks, tgt_blocks, off_blocks)
        if res is None:
            E.observe("declined", True)
            return True
        E.observe("per_part", [[list(c) for c in a.chunks] for a in (res.a[0] if isinstance(res, RechunkRec) else res).args])
        check_concat_result(E, parts_ax, target, res)

    nm = f"parts={part_blocks},target={tgt_blocks},off={off_blocks}"
    c = tgt_blocks
    for m in part_blocks:
        c *= m + 1
    return Instance(f"Rechunk._pushdown_through_concatenate[{nm}]", body,
                    dict(part_blocks=part_blocks, target_blocks=tgt_blocks, off_axis_blocks=off_blocks),
                    unit="Rechunk._pushdown_through_concatenate", cost=c, wall_s=600)


# ------------------------------------------------------------------ (e) transpose / expand_dims


def inst_through_transpose(axes):
    def body(E):
        import dask_array._rechunk as Rm

        w = W(E)
        n = len(axes)
        specs = tuple(E.int(f"spec{i}", 1) for i in range(n))
        inner = Fake(rechunk=lambda ch: Fake(kind="rechunked", chunks=ch))
        tr = Fake(array=inner, axes=axes)
        me = Fake(array=tr, _chunks=specs, balance=False)  # (balance=True: rechunk_balance instances, on real nodes)
        res = w.method(Rm.Rechunk, "_pushdown_through_transpose")(me)
        if res is None:
            return False
        rc, ax = res.a
        # output axis i of the transpose is input axis axes[i]
        return AND(tuple(ax) == tuple(axes), *[rc.chunks[axes[i]] == specs[i] for i in range(n)])

    return Instance(f"Rechunk._pushdown_through_transpose[axes={axes}]", body, dict(axes=axes),
                    unit="Rechunk._pushdown_through_transpose")


def inst_through_expand(ndim_in, axes):
    def body(E):
        import dask_array._rechunk as Rm

        w = W(E)
        n_out = ndim_in + len(axes)
        chunks = tuple((1,) if i in axes else (E.int(f"c{i}a", 1), E.int(f"c{i}b", 1)) for i in range(n_out))
        ex = Fake(array=Fake(_name="y"), axes=axes)
        me = Fake(array=ex, chunks=chunks, threshold=None, block_size_limit=None, method=None, balance=False)
        res = w.method(Rm.Rechunk, "_pushdown_through_expand_dims")(me)
        inner, ax = res.a
        want = tuple(c for i, c in enumerate(chunks) if i not in axes)
        return AND(tuple(ax) == tuple(axes), isinstance(inner, RechunkRec), inner.a[0] is ex.array, EQ(inner.a[1], want),
                   inner.a[4] is False)

    return Instance(f"Rechunk._pushdown_through_expand_dims[ndim={ndim_in},axes={axes}]", body,
                    dict(ndim=ndim_in, axes=axes), unit="Rechunk._pushdown_through_expand_dims")


# ------------------------------------------------------------------ validate


def inst_validate(mo, mn):
    def body(E):
        old, new = sym_chunks(E, "o", mo), sym_chunks(E, "n", mn)
        try:
            W(E).fn(R, "_validate_rechunk")((old,), (new,))
        except ValueError:
            return sum(old) != sum(new)
        return sum(old) == sum(new)

    return Instance(f"_validate_rechunk[{mo},{mn}]", body, dict(old=mo, new=mn), unit="_validate_rechunk")


def inst_balance(kind):
    """x.rechunk(spec, balance=True) under an element-wise op / a transpose / another rechunk (concrete chunk sizes: balancing is
    integer statistics of the size list; element values symbolic): the balanced chunks it advertises (oracle: legacy
    dask.array on the same shapes) are the chunks of the simplified and of the lowered expression too -- the pushdown carries the
    settled target, not the raw spec -- and the values are unchanged"""
    def body(E):
        import operator

        from symx.sarr import same_array

        from . import catalog

        w = catalog.W(E)
        if kind == "transpose":
            x = catalog.source(w, E, "x", (5, 2), chunks=[(2, 2, 2, 2, 1), (1, 1)])
            p = catalog.p_transpose(w, x, (1, 0))
            spec, shape, legacy_chunks = (2, 4), (2, 9), ((1, 1), (2, 2, 2, 2, 1))
        elif kind == "expand_dims":
            # ten elements by three: the balanced target (4, 4, 2) is not a fixed point of balancing (again: (5, 5))
            x = catalog.source(w, E, "x", (5,), chunks=[(2, 2, 2, 2, 2)])
            p = catalog.p_expand(w, x, (0,))
            spec, shape, legacy_chunks = (1, 3), (1, 10), ((1,), (2, 2, 2, 2, 2))
        else:
            x = catalog.source(w, E, "x", (5,), chunks=[(2, 2, 2, 2, 1)])
            p = (catalog.p_elemwise(w, operator.mul, x, 1.0) if kind == "elemwise" else
                 catalog.p_map(w, x, catalog.plus_one) if kind == "rechunk-rechunk" else x)
            spec, shape, legacy_chunks = (4,), (9,), ((2, 2, 2, 2, 1),)
        out = p.node.rechunk(spec, None, None, True, None)
        if kind == "rechunk-rechunk":
            # the inner rechunk asks for balance, the outer one does not: the outer target stands as normalised
            out = out.rechunk(spec, None, None, False, None)
        import dask.array as legacy

        ref = legacy.empty(shape, chunks=legacy_chunks).rechunk(spec, balance=kind != "rechunk-rechunk").chunks
        adv = tuple(map(tuple, out.chunks))
        E.observe("chunks", [list(c) for c in adv])
        E.ensure("advertises-the-balanced-normalised-spec", adv == tuple(map(tuple, ref)))
        st = catalog.stages(E, w, out, {"simplified", "lowered"})
        for stage in ("simplified", "lowered"):
            E.ensure(f"{stage}-keeps-the-advertised-chunks", tuple(map(tuple, st[stage].chunks)) == adv)
        for stage in ("materialized", "materialized_off"):
            m = catalog.stages(E, w, out, {stage})[stage]
            whole, dsk, r = catalog.run_tree(E, m, out.chunks, stage, check_shapes=True)
            same_array(E, whole, p.ref, label=f"{stage}-values", skolem=f"p{stage[-1]}")

    def api(values):
        import warnings

        import dask_array as da

        with warnings.catch_warnings():
            warnings.simplefilter("ignore")
            a = np.arange(18).reshape(9, 2) if kind == "transpose" else np.arange(9)
            x = da.from_array(a, chunks=(2, 1) if kind == "transpose" else 2)
            if kind == "expand_dims":
                x = da.from_array(np.arange(10), chunks=2)
                y = da.expand_dims(x, 0).rechunk((1, 3), balance=True)
            elif kind == "transpose":
                y = x.T.rechunk((2, 4), balance=True)
            elif kind == "rechunk-rechunk":
                y = x.map_blocks(lambda b: b + 1, dtype=a.dtype).rechunk(4, balance=True).rechunk(4)
            else:
                y = ((x * 1) if kind == "elemwise" else x).rechunk(4, balance=True)
            ok = y.expr.simplify().chunks == y.chunks and y.optimize().chunks == y.chunks
            return dict(ok=bool(ok), detail=f"advertised {y.chunks}, simplified {y.expr.simplify().chunks}, optimized {y.optimize().chunks}")

    return Instance(f"rechunk_balance[{kind}]", body, dict(kind=kind), unit="Rechunk.chunks (balance) + _pushdown_through_elemwise/_transpose + Rechunk(Rechunk) fusion",
                    api_replay=api)


def inst_balance_unknown_axis():
    """x.rechunk({0: c}, balance=True) where axis 1 has unknown (nan) chunk sizes and is left alone: the call goes through
    (unknown sizes along an unchanged axis are part of the property), axis 1 keeps its blocks, axis 0 is what the same call
    gives on a fully known array"""
    def body(E):
        import math

        import dask.array as legacy
        import dask_array.io._from_array as FAm
        from symx.sarr import leaf

        from . import catalog

        w = catalog.W(E)
        nan = float("nan")
        chunks = ((2, 2, 2, 2, 2), (nan, nan))
        node = w.space.make(FAm.FromArray, leaf("X", (10, 1)), chunks, _symx_attrs=dict(_meta=np.empty((0, 0)), chunks=chunks, _name="x"))
        out = node.rechunk({0: 4}, None, None, True, None)
        got = out.chunks
        want0 = legacy.empty((10, 3), chunks=((2, 2, 2, 2, 2), (2, 1))).rechunk({0: 4}, balance=True).chunks[0]
        E.ensure("changed-axis-is-balanced", tuple(got[0]) == tuple(want0))
        E.ensure("unknown-axis-keeps-its-blocks", len(got[1]) == 2 and all(math.isnan(v) for v in got[1]))

    def api(values):
        import warnings

        import dask_array as da

        with warnings.catch_warnings():
            warnings.simplefilter("ignore")
            x = da.from_array(np.arange(40).reshape(10, 4), chunks=(2, 2))
            y = x[:, da.from_array(np.array([True, False, True, True]), chunks=2)]
            try:
                c = y.rechunk({0: 4}, balance=True).chunks
            except TypeError as ex:
                return dict(ok=False, detail=f"x[:, lazy_mask].rechunk({{0: 4}}, balance=True) raised TypeError: {ex}")
            return dict(ok=c[0] == (5, 5) and len(c[1]) == 2, detail=f"chunks {c}")

    return Instance("rechunk_balance[unknown sizes along the unchanged axis]", body, {}, unit="Rechunk.chunks + _balance_chunksizes", api_replay=api)


def inst_rechunk_spec(kind):
    """x.rechunk(spec, block_size_limit=L) advertises exactly what normalising the spec against x gives
    (the real ArrayExpr.rechunk -> Rechunk.chunks on a symbolic node; oracle: the real normalize_chunks called
    the way the property states it)."""
    def body(E):
        from . import catalog

        w = catalog.W(E)
        CUm = "dask_array._core_utils"
        if kind == "dict-auto":
            hi = 3
        elif kind == "auto1":
            hi = 6
        else:
            hi = None
        blocks = (2,) if kind in ("auto1", "int", "minus1", "tuple", "flat1d") else (2, 2)
        x = catalog.source(w, E, "x", blocks, hi=hi)
        shape, cur = x.node.shape, x.node.chunks
        limit = None
        if kind == "auto1":
            spec, limit = "auto", E.int("limit", 8, 96)
        elif kind == "dict-auto":
            spec, limit = {0: -1, 1: "auto"}, E.int("limit", 8, 128)
        elif kind == "int":
            c = E.int("c", 1)
            E.assume(shape[0] <= 4 * c)
            spec = c
        elif kind == "minus1":
            spec = -1
        elif kind == "tuple":
            spec = (tuple(E.int(f"t{i}", 1) for i in range(3)),)
            E.assume(sum(spec[0]) == shape[0])
        elif kind == "flat1d":
            # the block sizes of a 1-d array given flat, x.rechunk((2, 3)): normalize_chunks reads them as one axis' blocks
            spec = tuple(E.int(f"t{i}", 1) for i in range(2))
            E.assume(sum(spec) == shape[0])
        else:  # dict-none: keep axis 0, one block on axis 1
            spec = {0: None, 1: -1}
        for ns in w.ns.values():
            if isinstance(ns.get("config"), Cfg):
                ns["config"].d["array.chunk-size"] = 10 ** 9
                ns["config"].d["array.chunk-size-tolerance"] = 1.25
        out = x.node.rechunk(spec, block_size_limit=limit)
        got = out.chunks
        resolved = spec
        if isinstance(spec, dict):
            resolved = tuple(spec[i] if spec.get(i) is not None else cur[i] for i in range(len(shape)))
        want = w.fn(CUm, "normalize_chunks")(resolved, shape, limit=limit, dtype=x.node.dtype, previous_chunks=cur)
        E.observe("chunks", [list(c) for c in got])
        E.ensure("rechunk-advertises-the-normalised-spec", EQ(tuple(map(tuple, got)), tuple(map(tuple, want))))
        E.ensure("same-shape", AND(*[sum(a) == n for a, n in zip(got, shape)]))
        if limit is not None:
            big = x.node.dtype.itemsize
            for a, c in enumerate(got):
                big = big * sym_max_(*c)
            # an 'auto' axis honours the requested byte limit (within the documented tolerance) unless fixed axes exceed it
            if kind == "auto1":
                E.ensure("auto-honours-block_size_limit", OR(big * 4 <= limit * 5, AND(*[v == 1 for v in got[0]])))

    return Instance(f"rechunk_spec[{kind}]", body, dict(kind=kind), unit="ArrayExpr.rechunk + Rechunk.chunks + normalize_chunks",
                    cost=6 if "auto" in kind else 1, wall_s=900)


def sym_max_(*xs):
    from symx.world import sym_max

    return sym_max(*xs) if len(xs) > 1 else xs[0]


def _program_body(E, w, prog):
    """programs with a rechunk in them (over elemwise with and without keyword arguments, transpose, concatenate, expand_dims,
    slices, another rechunk), optimized and materialized by the repository's pipeline: every block has the advertised
    (= requested) size and the values are those of the un-rechunked program"""
    from symx.sarr import same_array

    from . import catalog

    for stage in ("materialized", "materialized_off"):
        m = catalog.stages(E, w, prog.node, {stage})[stage]
        whole, dsk, r = catalog.run_tree(E, m, prog.node.chunks, stage, check_shapes=True)
        same_array(E, whole, prog.ref, label=f"{stage}-values", skolem=f"p{stage[-1]}")


def _program_instances(tier):
    from . import catalog

    return catalog.make_instances(tier, "C14", _program_body, "Rechunk pushdowns/_lower + TasksRechunk._layer inside programs",
                                  select=lambda name: "rechunk" in name)


def instances(tier):
    q = tier == "quick"
    out = _program_instances(tier)
    mmax = 3 if q else 5
    for mo in range(1, mmax + 1):
        for mn in range(1, mmax + 1):
            out.append(inst_crosswalk(mo, mn))
    for mo, mn in ((2, 2), (2, 3), (3, 2), (3, 3)) if q else ((1, 2), (2, 1), (2, 2), (2, 3), (3, 2), (3, 3), (4, 3), (3, 4), (4, 4)):
        out.append(inst_crosswalk(mo, mn, lo=0))
    layers = [((1,), (2,)), ((2,), (1,)), ((2,), (3,)), ((3,), (2,)), ((2, 1), (1, 2)), ((2, 2), (1, 2))]
    if not q:
        layers += [((3,), (3,)), ((4,), (2,)), ((2,), (4,)), ((2, 2), (2, 2)), ((2, 2), (3, 1)), ((1, 3), (2, 2)),
                   ((3, 2), (2, 2))]
    for mo, mn in layers:
        out.append(inst_layer(mo, mn))
    for m, k in ((1, 1), (2, 1), (2, 2), (3, 1), (3, 2)) if q else ((1, 1), (1, 2), (2, 1), (2, 2), (3, 1), (3, 2), (3, 3), (4, 2)):
        out.append(inst_through_slice(m, k))
    out.append(inst_through_slice(2, 2, with_int_axis=True))
    concats = [((1, 1), 1, (1, 1)), ((1, 1), 2, (1, 2)), ((2, 1), 2, (1, 1)), ((1, 2), 3, (2, 1)), ((2, 2), 2, (1, 1))]
    if not q:
        concats += [((2, 2), 3, (1, 2)), ((1, 1, 1), 2, (1, 1)), ((2, 1, 1), 3, (1, 1)), ((3, 1), 2, (2, 2)), ((2, 2), 4, (1, 1))]
    for pb, tb, ob in concats:
        out.append(inst_through_concat(pb, tb, ob))
    for axes in [(1, 0), (0, 1), (2, 0, 1), (1, 2, 0), (0, 2, 1)]:
        out.append(inst_through_transpose(axes))
    for nd, axes in [(1, (0,)), (1, (1,)), (2, (1,)), (2, (0, 3)), (1, (0, 1))]:
        out.append(inst_through_expand(nd, axes))
    for mo, mn in ((1, 2), (2, 2), (3, 1)):
        out.append(inst_validate(mo, mn))
    out.append(inst_balance_unknown_axis())
    for k in ("plain", "elemwise", "transpose", "expand_dims", "rechunk-rechunk"):
        out.append(inst_balance(k))
    for k in ("auto1", "int", "minus1", "tuple", "flat1d", "dict-none") + (() if q else ("dict-auto",)):
        out.append(inst_rechunk_spec(k))
    return out
