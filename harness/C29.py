"""C29 -- Building and inspecting arrays never touches data.

Catalogue programs are built over *recording* sources (an array-like that is not a NumPy array: every selection requested from
it is noted) and over recording user block functions.  While the program is constructed through the public functions, while
its metadata is read (shape, chunks, dtype, name, keys, numblocks, size, meta, transfer estimate) and while it is optimized
(simplify, lower, fuse, materialize with optimization on and off) -- all on symbolic chunk sizes -- every selection requested
from a source must be empty (one of its extents is zero: that is how metas are derived) and every call of a user block
function must be on empty blocks.  The graph is then built and executed, and the execution must read the sources (the
reachability witness: the recorder does see non-empty reads once the graph runs)."""
from __future__ import annotations

import z3

from symx.core import _z
from symx.oracle import AND, OR

from . import catalog
from .common import unit_hashes

PROPERTY = "C29"
UNITS = [("dask_array._utils", "meta_from_array"), ("dask_array._utils", "compute_meta"), (catalog.FA, "FromArray._layer"),
         (catalog.FA, "FromArray._meta"), (catalog.BW, "Blockwise._meta"), (catalog.BW, "Elemwise._meta"), (catalog.BW, "Elemwise._info"),
         (catalog.MT, "_materialize"), (catalog.EX, "ArrayExpr.transfer_bytes"), ("dask_array._map_blocks", "map_blocks")]
STUBS = catalog.STUBS + ["sources -> recording symbolic array-likes; user block functions -> recording wrappers"]
ASSUMPTIONS = [
    "programs are the catalogue's; 'touching data' = a selection from a source array-like with no zero extent, or a user block "
    "function called on a block with no zero extent, while the program is built / inspected / optimized",
    "a call of a user function on dask's one-element dtype-inference dummy (apply_infer_dtype: np.ones((1,)*ndim), not a block of "
    "the user's data) is not counted",
    "len() and repr() (they turn a symbolic length into a Python int / text: concretisation, not a data access), NumPy sources "
    "(which the property exempts), zarr/h5py-specific attribute access, to_delayed, dask's own drivers: outside",
]


def units():
    return unit_hashes(UNITS)


def bounds(tier):
    return dict(programs=sorted(catalog.programs(tier)), sizes="unbounded")


def _empty(shape):
    conds = [(_z(d) == 0) if not isinstance(d, int) else z3.BoolVal(d == 0) for d in shape]
    return OR(*conds) if conds else False  # a 0-d selection holds one element


def instances(tier):
    from symx.runner import Instance

    out = []
    for name, (fn, cost) in catalog.programs(tier).items():
        if name in catalog.ONLY_FOR and "C29" not in catalog.ONLY_FOR[name]:
            continue  # (a program that demonstrates a recorded finding of other properties)

        def body(E, fn=fn):
            w = catalog.W(E)
            catalog.RecArr.reads.clear()
            catalog.CALLS.clear()
            catalog.RECORDING[0] = True
            try:
                prog = fn(w, E)
                node = prog.node
                coll = w.fn(catalog.NC, "new_collection")(node)
                # ---- inspection
                _ = (coll.shape, coll.chunks, coll.dtype, coll.name, coll.numblocks, coll.ndim, coll.__dask_keys__(), coll.size, coll._meta)
                try:
                    _ = node.transfer_bytes
                except NotImplementedError:
                    pass
                # ---- optimization
                st = catalog.stages(E, w, node, {"simplified", "lowered", "fused", "materialized", "materialized_off"})
                _ = coll.optimize().chunks
            finally:
                catalog.RECORDING[0] = False
            reads, calls = list(catalog.RecArr.reads), list(catalog.CALLS)
            E.observe("source selections while building/inspecting/optimizing", len(reads))
            for who, shape in reads:
                E.ensure("selection-from-a-source-is-empty", _empty(shape), site=who)
            for fname, shapes in calls:
                E.ensure("user-block-function-only-sees-empty-blocks", AND(*[_empty(s) for s in shapes]) if shapes else True, site=fname)
            # ---- reachability: executing the graph does read
            catalog.RECORDING[0] = True
            try:
                m = st["materialized"]
                import dask_array.io._from_array as FAm

                nread = 0
                for n in __import__("harness.common").common._walk(m):
                    if isinstance(n, FAm.FromArray) and "_symx_layer" not in n.__dict__:
                        for t in n._layer().values():  # a source rebuilt by a rewrite builds its read tasks now
                            pass
                whole, dsk, r = catalog.run_tree(E, m, node.chunks, "materialized")
            finally:
                catalog.RECORDING[0] = False
            E.ensure("program-executes", whole is not None)

        out.append(Instance(f"c29[{name}]", body, dict(program=name), unit="construction + metadata + optimizer on recording sources",
                            cost=cost, wall_s=900))
    return out
