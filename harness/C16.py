"""C16 -- Chunk normalization produces valid layouts within the byte limit."""
from __future__ import annotations

import numpy as np

from symx.oracle import AND, EQ, IMPLIES, ITE, NOT, OR
from symx.runner import Instance
from symx.world import SHIM_LIST, sym_max

from .common import Cfg, unit_hashes, world

PROPERTY = "C16"
CU = "dask_array._core_utils"
MODS = [CU]
UNITS = [(CU, "normalize_chunks"), (CU, "blockdims_from_blockshape"), (CU, "_convert_int_chunk_to_tuple"),
         (CU, "auto_chunks"), (CU, "round_to"), (CU, "_compute_multiplier")]
STUBS = SHIM_LIST + ["dask.config -> stub (array.chunk-size symbolic, array.chunk-size-tolerance = 1.25)"]
ASSUMPTIONS = [
    "spec form, rank (<=2) and dtype itemsize are concrete per instance; sizes are unbounded integers",
    "number of blocks per uniform axis <= 4 (assumed as n <= 4*|c|): (bd,) * (d // bd) repeats a tuple a symbolic "
    "number of times and that count is concretised through the solver",
    "'auto' with one auto axis: fixed chunk size concrete in {1,2,3}, limit symbolic; two auto axes and previous_chunks: "
    "shape <= 12, limit <= 64 (fractional powers / np.median concretise)",
    "explicit tuple-of-sizes axes are passed through unchanged: zero entries inside an explicit tuple are the caller's layout "
    "and are not counted against 'only zero-length axes carry zero-size chunks'",
    "object dtypes and array.chunk-size-tolerance != 1.25 are outside the claim; float arithmetic is exact rationals",
]


def units():
    return unit_hashes(UNITS)


def bounds(tier):
    return dict(rank=[1, 2], blocks_per_uniform_axis="<=4", auto_two_axes=dict(shape="<=12", limit="<=64"))


def W(E, limit=None):
    cfg = Cfg({"array.chunk-size": limit, "array.chunk-size-tolerance": 1.25})
    w = world("C16", E.symbolic, MODS, extra=dict(config=cfg))
    w.ns[CU]["config"].d["array.chunk-size"] = limit
    return w


def valid_layout(E, out, shape, label="layout", explicit_axes=()):
    if not isinstance(out, tuple) or len(out) != len(shape):
        E.ensure(f"{label}-rank", False)
        return False
    for ax, (tup, n) in enumerate(zip(out, shape)):
        if not isinstance(tup, tuple) or len(tup) < 1:
            E.ensure(f"{label}-nonempty-axis{ax}", False)
            return False
        E.ensure(f"{label}-sum-axis{ax}", sum(tup) == n)
        E.ensure(f"{label}-nonneg-axis{ax}", AND(*[v >= 0 for v in tup]))
        if ax not in explicit_axes:  # explicit tuples are passed through as given (zero-width blocks are the caller's)
            E.ensure(f"{label}-zero-only-on-empty-axis{ax}", IMPLIES(n > 0, AND(*[v > 0 for v in tup])))
    return True


def uniform(E, tup, c, n, label):
    """c,...,c,last with 0 < last <= c (n > 0)"""
    E.ensure(label, AND(*[v == c for v in tup[:-1]], IMPLIES(n > 0, AND(tup[-1] <= c, tup[-1] > 0))))


def few_blocks(E, n, c):
    E.assume(OR(AND(c > 0, n <= 4 * c), AND(c < 0, n <= -4 * c), c == 0))


def inst_ints(kind):
    """kind: scalar | tuple | dict | neg1 | none | mixed"""

    def body(E):
        w = W(E)
        n0, n1 = E.int("n0", 0), E.int("n1", 0)
        c0, c1 = E.int("c0"), E.int("c1")
        few_blocks(E, n0, c0)
        shape = (n0, n1)
        if kind == "scalar":
            spec = c0
            few_blocks(E, n1, c0)
            eff = (c0, c0)
        elif kind == "tuple":
            spec = (c0, c1)
            few_blocks(E, n1, c1)
            eff = (c0, c1)
        elif kind == "dict":
            spec = {0: c0}
            eff = (c0, None)
        elif kind == "dict-negative-axis":
            # axes may be counted from the end, as everywhere else: {-2: c} on a 2-d shape is axis 0
            spec = {-2: c0}
            eff = (c0, None)
        elif kind == "neg1":
            spec = (c0, -1)
            eff = (c0, None)
        elif kind == "none":
            spec = (None, c0)
            few_blocks(E, n1, c0)
            E.assume(n0 <= 4)
            eff = (None, c0)
        elif kind == "mixed":
            a, b = E.int("a"), E.int("b")
            spec = (c0, (a, b))
            eff = (c0, (a, b))
        try:
            out = w.fn(CU, "normalize_chunks")(spec, shape)
        except (ValueError, ZeroDivisionError, TypeError):
            # refusing a spec is always allowed; accepting a valid one is checked below
            valid = AND(*[OR(c is None, isinstance(c, tuple), AND(c > 0) if not isinstance(c, (tuple, type(None))) else True)
                          for c in eff])
            if kind == "mixed":
                valid = AND(valid, eff[1][0] + eff[1][1] == n1, eff[1][0] >= 0, eff[1][1] >= 0)
            E.ensure("valid-spec-accepted", NOT(valid))
            return
        E.observe("out", [list(t) for t in out])
        if not valid_layout(E, out, shape, explicit_axes=[ax for ax, c in enumerate(eff) if isinstance(c, tuple)]):
            return
        for ax, c in enumerate(eff):
            if c is None:
                E.ensure(f"full-axis{ax}", AND(len(out[ax]) == 1))
            elif isinstance(c, tuple):
                E.ensure(f"explicit-axis{ax}", EQ(out[ax], c))
            else:
                # -1 means "whole axis"
                if len(out[ax]) >= 1:
                    E.ensure(f"uniform-axis{ax}", OR(AND(c == -1, len(out[ax]) == 1),
                                                   AND(*[v == c for v in out[ax][:-1]],
                                                       IMPLIES(shape[ax] > 0, AND(out[ax][-1] <= c, out[ax][-1] > 0)))))

    def api(values):
        import numpy as np
        import dask_array as da

        n0, n1 = values["n0"], values["n1"]
        if n0 * n1 > 10 ** 6:
            return dict(ok=False, detail="too large for an API replay; unit-level replay stands")
        c0, c1 = values.get("c0"), values.get("c1")
        spec = {"dict-negative-axis": {-2: c0}}.get(kind) or dict(scalar=c0, tuple=(c0, c1), dict={0: c0}, neg1=(c0, -1), none=(None, c0),
                    mixed=(c0, (values.get("a"), values.get("b"))))[kind]
        try:
            x = da.from_array(np.zeros((n0, n1), dtype="u1"), chunks=spec)
            got = x.compute()
        except Exception as e:
            return dict(ok=True, detail=f"API refuses: {type(e).__name__}: {e}")
        ok = (got.shape == (n0, n1) and x.shape == (n0, n1) and all(sum(c) == s for c, s in zip(x.chunks, (n0, n1)))
              and all(v >= 0 for c in x.chunks for v in c))
        if kind in ("dict", "dict-negative-axis") and n0 > 0:
            # an explicit uniform size c yields blocks of size c except possibly a smaller last block
            ok = ok and all(b == c0 for b in x.chunks[0][:-1]) and 0 < x.chunks[0][-1] <= c0
        return dict(ok=ok, detail=f"da.from_array(np.zeros({(n0, n1)}), chunks={spec}) -> shape {x.shape} chunks {x.chunks} computed {got.shape}")

    return Instance(f"normalize_chunks[{kind}]", body, dict(spec=kind), unit="normalize_chunks", api_replay=api, cost=3)


def inst_explicit(m0, m1):
    def body(E):
        w = W(E)
        a = tuple(E.int(f"a{i}") for i in range(m0))
        b = tuple(E.int(f"b{i}") for i in range(m1))
        n0, n1 = E.int("n0", 0), E.int("n1", 0)
        try:
            out = w.fn(CU, "normalize_chunks")((a, b), (n0, n1))
        except ValueError:
            E.ensure("valid-explicit-accepted", NOT(AND(sum(a) == n0, sum(b) == n1, *[v >= 0 for v in a + b],
                                                       IMPLIES(n0 > 0, AND(*[v > 0 for v in a])), IMPLIES(n1 > 0, AND(*[v > 0 for v in b])))))
            return
        E.ensure("explicit-kept", AND(EQ(out[0], a), EQ(out[1], b)))
        E.ensure("explicit-sums", AND(sum(out[0]) == n0, sum(out[1]) == n1))

    return Instance(f"normalize_chunks[explicit {m0}x{m1}]", body, dict(blocks=(m0, m1)), unit="normalize_chunks")


def inst_explicit_fractional():
    """an explicit tuple of sizes given as floats, ((a0, a1),) with a0 + a1 == n, the sizes being multiples of one half:
    whatever is returned sums to n (sizes that are whole numbers are kept as integers); sizes with a fractional part cannot be
    a layout -- refusing them is fine, truncating them is not"""
    def body(E):
        w = W(E)
        k = tuple(E.int(f"k{i}", 1) for i in range(2))
        a = tuple(v / 2 for v in k)  # (integer-ratio reals: truncation is decided in integer arithmetic)
        n = E.int("n0", 1)
        E.assume(k[0] + k[1] == 2 * n)
        try:
            out = w.fn(CU, "normalize_chunks")((a,), (n,))
        except ValueError:
            E.ensure("whole-sizes-are-accepted", NOT(AND(*[v % 2 == 0 for v in k])))
            return
        E.ensure("one-axis", len(out) == 1)
        E.ensure("sizes-sum-to-the-length", sum(out[0]) == n)

    def api(values):
        from dask_array._core_utils import normalize_chunks

        a = tuple(values[f"k{i}"] / 2 for i in range(2))
        n = values["n0"]
        try:
            out = normalize_chunks((a,), (n,))
        except ValueError:
            return dict(ok=not all(v == int(v) for v in a), detail=f"normalize_chunks(({a},), ({n},)) raised ValueError")
        return dict(ok=sum(out[0]) == n, detail=f"normalize_chunks(({a},), ({n},)) = {out}")

    return Instance("normalize_chunks[explicit sizes given as floats]", body, {}, unit="normalize_chunks", api_replay=api)


def inst_auto_one(cfix, itemsize, via):
    """(cfix, 'auto') with symbolic limit; via: 'limit' (keyword) | 'config' | 'bytes' (string spec)"""

    def body(E):
        lim = E.int("limit", 1)
        w = W(E, limit=lim if via == "config" else None)
        n0, n1 = E.int("n0", 1), E.int("n1", 1)
        E.assume(n0 <= 4 * cfix)
        # keep the number of auto blocks small: n1 * itemsize * cfix <= 4 * limit
        E.assume(n1 * itemsize * cfix <= 4 * lim)
        dtype = np.dtype(f"u{itemsize}")
        kw = dict(dtype=dtype)
        if via == "limit":
            kw["limit"] = lim
        out = w.fn(CU, "normalize_chunks")((cfix, "auto"), (n0, n1), **kw)
        E.observe("out", [list(t) for t in out])
        if not valid_layout(E, out, (n0, n1)):
            return
        big0 = sym_max(*out[0]) if len(out[0]) > 1 else out[0][0]
        big1 = sym_max(*out[1]) if len(out[1]) > 1 else out[1][0]
        fixed_alone_exceeds = itemsize * big0 > lim
        E.ensure("auto-within-limit", OR(itemsize * big0 * big1 <= lim, AND(fixed_alone_exceeds, big1 == 1)))
        # auto axes are uniform too
        E.ensure("auto-uniform", AND(*[v == out[1][0] for v in out[1][:-1]], out[1][-1] <= out[1][0]))

    return Instance(f"normalize_chunks[({cfix},'auto'),itemsize={itemsize},via={via}]", body,
                    dict(fixed=cfix, itemsize=itemsize, via=via), unit="normalize_chunks+auto_chunks", cost=4)


def inst_auto_empty(fixed):
    """('auto', fixed) on a shape whose fixed axis has length zero (an empty array: an appendable dataset without records,
    np.empty((n, 0))): a valid layout comes back -- the zero-length axis carries (0,), the auto axis sums to its length"""
    def body(E):
        lim = E.int("limit", 1)
        w = W(E)
        n0 = E.int("n0", 1)
        out = w.fn(CU, "normalize_chunks")(("auto", fixed), (n0, 0), limit=lim, dtype=np.dtype("f8"))
        E.observe("out", [list(t) for t in out])
        E.ensure("two-axes", len(out) == 2)
        E.ensure("auto-axis-sums-to-its-length", AND(sum(out[0]) == n0, *[c >= 0 for c in out[0]]))
        E.ensure("empty-axis-is-(0,)", tuple(out[1]) == (0,))

    def api(values):
        from dask_array._core_utils import normalize_chunks

        n0, lim = values["n0"], values["limit"]
        try:
            out = normalize_chunks(("auto", fixed), (n0, 0), limit=lim, dtype=np.dtype("f8"))
        except ZeroDivisionError as ex:
            return dict(ok=False, detail=f"normalize_chunks(('auto', {fixed!r}), ({n0}, 0), limit={lim}) raised ZeroDivisionError: {ex}")
        return dict(ok=sum(out[0]) == n0 and tuple(out[1]) == (0,), detail=f"{out}")

    return Instance(f"normalize_chunks[('auto',{fixed!r}) on an empty array]", body, dict(fixed=fixed), unit="normalize_chunks+auto_chunks",
                    api_replay=api)


def inst_auto_two(itemsize, nmax, limmax):
    def body(E):
        lim = E.int("limit", 1, limmax)
        w = W(E)
        n0, n1 = E.int("n0", 1, nmax), E.int("n1", 1, nmax)
        out = w.fn(CU, "normalize_chunks")("auto", (n0, n1), limit=lim, dtype=np.dtype(f"u{itemsize}"))
        E.observe("out", [list(t) for t in out])
        if not valid_layout(E, out, (n0, n1)):
            return
        big0 = sym_max(*out[0]) if len(out[0]) > 1 else out[0][0]
        big1 = sym_max(*out[1]) if len(out[1]) > 1 else out[1][0]
        E.ensure("auto-within-limit", OR(itemsize * big0 * big1 <= lim, AND(big0 == 1, big1 == 1)))

    return Instance(f"normalize_chunks['auto' x2,itemsize={itemsize},n<={nmax},limit<={limmax}]", body,
                    dict(itemsize=itemsize, nmax=nmax, limmax=limmax), unit="normalize_chunks+auto_chunks", cost=20,
                    cap=400, wall_s=900, max_paths=100000)


def inst_auto_explicit(itemsize, smax, nmax, limmax):
    """('auto', (a, b)): the fixed axis is an explicit non-uniform tuple"""

    def body(E):
        lim = E.int("limit", 1, limmax)
        w = W(E)
        a, b = E.int("a", 1, smax), E.int("b", 1, smax)
        n0 = E.int("n0", 1, nmax)
        out = w.fn(CU, "normalize_chunks")(("auto", (a, b)), (n0, a + b), limit=lim, dtype=np.dtype(f"u{itemsize}"))
        E.observe("out", [list(t) for t in out])
        if not valid_layout(E, out, (n0, a + b), explicit_axes=[1]):
            return
        E.ensure("explicit-kept", EQ(out[1], (a, b)))
        big0 = sym_max(*out[0]) if len(out[0]) > 1 else out[0][0]
        big1 = sym_max(a, b)
        E.ensure("auto-within-limit", OR(itemsize * big0 * big1 <= lim, AND(itemsize * big1 > lim, big0 == 1)))

    return Instance(f"normalize_chunks[('auto',(a,b)),itemsize={itemsize}]", body,
                    dict(itemsize=itemsize, smax=smax, nmax=nmax, limmax=limmax), unit="normalize_chunks+auto_chunks",
                    cost=10, cap=200, wall_s=600)


def inst_bytes(text, nbytes, itemsize):
    def body(E):
        w = W(E)
        n0 = E.int("n0", 1)
        E.assume(n0 * itemsize <= 4 * nbytes)
        out = w.fn(CU, "normalize_chunks")(text, (n0,), dtype=np.dtype(f"u{itemsize}"))
        E.observe("out", [list(t) for t in out])
        if not valid_layout(E, out, (n0,)):
            return
        big = sym_max(*out[0]) if len(out[0]) > 1 else out[0][0]
        E.ensure("bytes-within-limit", OR(itemsize * big <= nbytes, big == 1))

    return Instance(f"normalize_chunks[{text!r},itemsize={itemsize}]", body, dict(spec=text, itemsize=itemsize),
                    unit="normalize_chunks+auto_chunks")


def inst_prev(itemsize, nmax, limmax, mprev):
    """'auto' guided by previous_chunks (1-D)"""

    def body(E):
        lim = E.int("limit", 1, limmax)
        w = W(E)
        prev = tuple(E.int(f"p{i}", 1, nmax) for i in range(mprev))
        n0 = sum(prev)
        E.assume(n0 <= nmax)
        out = w.fn(CU, "normalize_chunks")(("auto",), (n0,), limit=lim, dtype=np.dtype(f"u{itemsize}"), previous_chunks=(prev,))
        E.observe("out", [list(t) for t in out])
        if not valid_layout(E, out, (n0,)):
            return
        big = sym_max(*out[0]) if len(out[0]) > 1 else out[0][0]
        # with previous_chunks the documented tolerance (array.chunk-size-tolerance = 1.25) applies
        E.ensure("auto-within-limit-tolerance", OR(4 * itemsize * big <= 5 * lim, big == 1))

    return Instance(f"normalize_chunks['auto'+previous_chunks,blocks={mprev},itemsize={itemsize}]", body,
                    dict(itemsize=itemsize, nmax=nmax, limmax=limmax, prev_blocks=mprev), unit="normalize_chunks+auto_chunks",
                    cost=30, cap=400, wall_s=900, max_paths=100000)


def instances(tier):
    q = tier == "quick"
    out = [inst_ints(k) for k in ("scalar", "tuple", "dict", "dict-negative-axis", "neg1", "none", "mixed")]
    out += [inst_explicit(1, 1), inst_explicit(2, 1), inst_explicit(2, 3), inst_explicit_fractional(), inst_auto_empty(-1), inst_auto_empty((0,))]
    for cfix in (1, 2, 3) if not q else (1, 3):
        for itemsize in (1, 8):
            out.append(inst_auto_one(cfix, itemsize, "limit"))
    out.append(inst_auto_one(2, 4, "config"))
    out.append(inst_auto_explicit(1, 4, 8, 24))
    if not q:
        out.append(inst_auto_explicit(2, 6, 12, 64))
    out.append(inst_bytes("16B", 16, 1))
    out.append(inst_bytes("1kiB", 1024, 4))
    out.append(inst_auto_two(1, 6 if q else 12, 16 if q else 64))
    if not q:
        out.append(inst_auto_two(2, 8, 64))
    out.append(inst_prev(1, 8 if q else 12, 8 if q else 32, 2))
    if not q:
        out.append(inst_prev(1, 12, 32, 3))
        out.append(inst_prev(2, 10, 32, 2))
    return out
