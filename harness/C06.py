"""C06 -- Equal names denote equal arrays (the naming logic of this repository, on symbolic trees).

Every catalogue program is pushed through the whole pipeline (raw lowering, simplify, lower, fuse, materialize with
optimization on and off), which creates the rewrite products with their pinned or hand-built names: FromArray regions and
absorbed rechunks (``_name_is_exact`` names), rechunk names, fused groups, the RootAlias pin, and every class whose
``__dask_tokenize__`` the repository overrides (Blockwise, Elemwise, Reduction, PartialReduce, FromArray) -- in this model
the override itself decides what enters a node's token, only the hash under it is a structural digest.  All nodes created on
the path are then grouped by ``_name``.  Whenever one name is carried by nodes of *different full structure* (class and
operands compared recursively, not by name), the nodes must denote the same array: same chunks and dtype, and -- executed
from their own lowered graphs -- the same values at a skolem position."""
from __future__ import annotations

import builtins
import hashlib

from symx.oracle import AND, EQ
from symx.sarr import same_array

from . import catalog
from .common import unit_hashes

PROPERTY = "C06"
UNITS = [(catalog.BW, "Blockwise.__dask_tokenize__"), (catalog.BW, "Elemwise.__dask_tokenize__"), (catalog.BW, "Blockwise._name"),
         (catalog.RD, "Reduction.__dask_tokenize__"), (catalog.RD, "PartialReduce.__dask_tokenize__"),
         (catalog.FA, "FromArray.__dask_tokenize__"), (catalog.FA, "FromArray._name"), (catalog.FA, "FromArray._with_chunks"),
         (catalog.FA, "FromArray._accept_slice"), (catalog.RC, "Rechunk._name"), (catalog.EX, "RootAlias._name"),
         (catalog.BW, "FusedBlockwise._name"), (catalog.MT, "_materialize")]
STUBS = catalog.STUBS + ["tokenize / _tokenize_deterministic -> structural digest (hash collisions of the real hash are outside the claim)"]
ASSUMPTIONS = [
    "nodes are those created while one catalogue program runs through the whole pipeline (one process history per path); pairs "
    "across unrelated programs, random arrays (C23), persisted graphs and dask's SingletonExpr registry itself are outside",
    "the content hash is replaced by a structural digest: what is decided is which operands and derived quantities the "
    "repository's naming code feeds into a name, not the hash function",
]


def units():
    return unit_hashes(UNITS)


def bounds(tier):
    return dict(programs=sorted(catalog.programs(tier)), sizes="unbounded")


def _full(node, memo):
    """digest of the full structure of a node: class and operands, recursively (never by name)"""
    from symx.nodes import sym_tokenize

    k = id(node)
    if k in memo:
        return memo[k]

    def norm(v):
        if hasattr(builtins.type(v), "_symx_real"):
            return ("node", _full(v, memo))
        if isinstance(v, (tuple, list)):
            return tuple(norm(x) for x in v)
        if isinstance(v, dict):
            return tuple(sorted((str(a), norm(b)) for a, b in v.items()))
        return ("leaf", sym_tokenize(v))

    real = builtins.type(node).__dict__.get("_symx_real", builtins.type(node))
    tok = hashlib.md5(repr((real.__name__, tuple(norm(o) for o in node.operands))).encode()).hexdigest()[:12]
    memo[k] = tok
    return tok


def _body(E, w, prog):
    st = catalog.stages(E, w, prog.node, {"raw", "simplified", "lowered", "fused", "materialized", "materialized_off"})
    memo, groups = {}, {}
    for n in list(w.space.created):
        try:
            name = n._name
            chunks = n.chunks
        except Exception:
            continue  # a node a rewrite built and discarded before it was well-formed
        if not isinstance(name, str) or not hasattr(n, "_layer"):
            continue
        groups.setdefault(name, {}).setdefault(_full(n, memo), n)
    clashes = {name: list(reps.values()) for name, reps in groups.items() if len(reps) > 1}
    # (how many names there are is not observed: two terms that differ symbolically on a path can coincide for the particular
    # witness the solver picks -- an index landing on a chunk boundary -- and then share a name in the concrete run)
    E.ensure("names-examined", len(groups) >= 1)
    for name, reps in sorted(clashes.items()):
        first = reps[0]
        ref = None
        for k, other in enumerate(reps):
            E.ensure("same-name-same-chunks", EQ(tuple(map(tuple, other.chunks)), tuple(map(tuple, first.chunks))), site=name.split("-")[0])
            E.ensure("same-name-same-dtype", other.dtype == first.dtype, site=name.split("-")[0])
            low = catalog.lower_tree(other)
            dsk = dict(prog.dsk)
            dsk.update(catalog._layers(low))
            from symx.graph import run_blocks

            whole, _r = run_blocks(E, dsk, low._name, low.chunks, label="same-name", check_shapes=False)  # (the lowered layout may differ)
            if name == prog.node._name and getattr(prog.ref, "lemmas", None) is not None:
                whole.lemmas = prog.ref.lemmas  # the program's own index space: prefix-function instances apply
            if ref is None:
                ref = whole
            else:
                old = E.tags.get("site")
                E.tag("site", name.split("-")[0])
                try:
                    same_array(E, whole, ref, label="same-name-same-values", skolem=f"n{k}_")
                finally:
                    E.tag("site", old)


def instances(tier):
    return catalog.make_instances(tier, "C06", _body, "naming of every node the pipeline creates (name -> structure -> denotation)")
