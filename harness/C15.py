"""C15 -- Rechunk plans are valid and respect the block-size budget."""
from __future__ import annotations

from symx.oracle import AND, EQ, IMPLIES, ITE, NOT, OR, cumsum0
from symx.runner import Instance
from symx.world import SHIM_LIST, SymNp, sym_max

from .common import Cfg, unit_hashes, world
from .C14 import crosswalk_ok, inst_crosswalk, sym_chunks

PROPERTY = "C15"
R = "dask_array._rechunk"
MODS = [R]
UNITS = [(R, "plan_rechunk"), (R, "find_merge_rechunk"), (R, "find_split_rechunk"), (R, "divide_to_width"),
         (R, "merge_to_number"), (R, "_bound_degree"), (R, "_max_overlap"), (R, "estimate_graph_size"),
         (R, "_graph_size_threshold"), (R, "_largest_block_size"), (R, "_number_of_blocks"), (R, "old_to_new"),
         (R, "_intersect_1d"), (R, "_breakpoints"), (R, "cumdims_label")]
STUBS = SHIM_LIST + [
    "dask.config.get -> symbolic array.rechunk.threshold / array.chunk-size, enumerated array.rechunk.degree-limit",
    "_bound_degree wrapped by a recorder that tags the intermediates it inserts (delegates to the repo's own function)",
]
ASSUMPTIONS = [
    "block counts per axis and rank (<=2) are concrete per instance",
    "chunk sizes bounded (1..4 quick, 1..6 thorough): block sizes are products (nonlinear) and np.log/fractional "
    "powers in find_merge_rechunk concretise the widths they depend on",
    "itemsize in {1, 3} (quick) / {1, 3, 8} (thorough); threshold, block-size limit symbolic within stated ranges",
    "floats modelled as exact rationals (graph_size * threshold, limit * width / block)",
]


def units():
    return unit_hashes(UNITS)


def bounds(tier):
    q = tier == "quick"
    return dict(rank=[1, 2], sizes=[1, 4] if q else [1, 6], threshold=[1, 4] if q else [1, 8],
                limit=[1, 16] if q else [1, 64], degree_limit=[2, 100] if q else [2, 3, 4, 8, 100],
                itemsize=[1, 3] if q else [1, 3, 8], crosswalk="old/new blocks <=3 (quick) / <=5 (thorough), sizes unbounded, "
                "zero-width blocks included")


class _BD:
    """per-path record of what _bound_degree inserted"""

    def __init__(self):
        self.inserted = []


def W(E):
    state = dict(cfg=Cfg(), bd=None, w=None)

    def bound_degree(prev, step, limit, *rest):
        w = state["w"]
        out = w.clone_of(R, "_bound_degree")(prev, step, limit, *rest)
        state["bd"].inserted.extend(out[:-1])
        return out

    w = world("C15", E.symbolic, MODS, extra=dict(config=state["cfg"], _bound_degree=bound_degree, _state=state))
    st = w.ns[R]["_state"]
    st["w"] = w
    return w, st


def largest(chunks):
    out = 1
    for c in chunks:
        out = out * (sym_max(*c) if len(c) > 1 else c[0])
    return out


def inst_plan(mo, mn, deg, smax, itemsize=1, thr_max=4, lim_max=16, empty_axes=(), lo=1):
    """empty_axes: axes of length zero (one zero-width chunk before and after; the array is empty); lo=0: zero-width chunks
    may sit anywhere among the others"""
    nd = len(mo)

    def body(E):
        w, st = W(E)
        old = tuple((0,) if a in empty_axes else sym_chunks(E, f"o{a}_", m, lo) for a, m in enumerate(mo))
        new = tuple((0,) if a in empty_axes else sym_chunks(E, f"n{a}_", m, lo) for a, m in enumerate(mn))
        for a in range(nd):
            for c in old[a] + new[a]:
                E.assume(c <= smax)
            E.assume(sum(old[a]) == sum(new[a]))
            if lo == 0:
                E.assume(sum(old[a]) >= 1)
        lim = E.int("limit", 1, lim_max)
        thr = E.int("threshold", 1, thr_max)
        st["cfg"].d = {"array.rechunk.threshold": thr, "array.chunk-size": lim, "array.rechunk.degree-limit": deg}
        st["bd"] = _BD()
        E.tag("site", "size-planner")
        steps = w.fn(R, "plan_rechunk")(old, new, itemsize)
        E.observe("steps", [[list(ax) for ax in s] for s in steps])
        if not isinstance(steps, list) or len(steps) < 1:
            return False
        E.ensure("ends-in-new", EQ(steps[-1], new))
        budget = sym_max(lim / itemsize if itemsize != 1 else lim, largest(old), largest(new))
        inserted = st["bd"].inserted
        for k, s in enumerate(steps):
            if len(s) != nd:
                return False
            E.ensure("same-shape-positive", AND(*[AND(sum(s[a]) == sum(old[a]), *[c >= (0 if a in empty_axes else lo) for c in s[a]])
                                                  for a in range(nd)]))
            by_bd = any(s is t for t in inserted)
            E.ensure("block-size-budget", largest(s) <= budget, site="_bound_degree" if by_bd else "size-planner")
        # the crosswalk between consecutive steps
        prev = old
        for s in steps:
            res = w.fn(R, "old_to_new")(prev, s)
            for a in range(nd):
                if a not in empty_axes:
                    crosswalk_ok(E, prev[a], s[a], res[a], label="crosswalk", lo=lo)
            prev = s

    def api(values):
        import dask
        from dask_array._rechunk import _largest_block_size, plan_rechunk

        old = tuple((0,) if a in empty_axes else tuple(values[f"o{a}_{i}"] for i in range(m)) for a, m in enumerate(mo))
        new = tuple((0,) if a in empty_axes else tuple(values[f"n{a}_{i}"] for i in range(m)) for a, m in enumerate(mn))
        with dask.config.set({"array.rechunk.degree-limit": deg}):
            steps = plan_rechunk(old, new, itemsize, threshold=values["threshold"], block_size_limit=values["limit"])
        big = max(values["limit"] / itemsize, _largest_block_size(old), _largest_block_size(new))
        ok = steps[-1] == new and all(tuple(map(sum, s)) == tuple(map(sum, old)) for s in steps) and all(
            _largest_block_size(s) <= big for s in steps)
        return dict(ok=ok, detail=f"plan_rechunk({old}, {new}, {itemsize}, threshold={values['threshold']}, "
                                  f"block_size_limit={values['limit']}) degree-limit={deg} -> {steps}; budget {big}")

    nm = "x".join(map(str, mo)) + "->" + "x".join(map(str, mn))
    cost = 1
    for m in mo + mn:
        cost *= m + 1
    if empty_axes:
        nm += f",empty axes {tuple(empty_axes)}"
    if lo == 0:
        nm += ",zero-width chunks allowed"
    return Instance(f"plan_rechunk[{nm},degree={deg},sizes<={smax},itemsize={itemsize}]", body,
                    dict(old_blocks=mo, new_blocks=mn, degree_limit=deg, max_size=smax, itemsize=itemsize),
                    unit="plan_rechunk", api_replay=api, cost=cost * (2 if deg < 100 else 1), wall_s=2700, timeout_ms=30000,
                    max_paths=50000)


def instances(tier):
    q = tier == "quick"
    out = []
    if q:
        for mo, mn in (((2,), (1,)), ((3,), (2,)), ((2,), (4,)), ((4,), (1,))):
            out.append(inst_plan(mo, mn, 2, 4))
        for mo, mn in (((2, 1), (1, 2)), ((2, 2), (1, 2)), ((1, 2), (2, 1))):
            out.append(inst_plan(mo, mn, 100, 4))
        out.append(inst_plan((2, 2), (3, 2), 2, 3))
        out.append(inst_plan((3, 1), (1, 3), 2, 3))
        out.append(inst_plan((2, 1), (1, 2), 100, 3, itemsize=3, lim_max=24))
        out.append(inst_plan((1, 1, 2), (1, 2, 1), 100, 3, empty_axes=(0,)))  # an empty array still gets a plan
        out.append(inst_plan((4,), (3,), 2, 3, itemsize=2, lim_max=8, thr_max=1))  # 1-d, items wider than a byte, degree pass on
        out.append(inst_plan((4,), (2,), 2, 2, lo=0))
        out.append(inst_plan((1, 4), (2, 4), 2, 2, lo=0, thr_max=1, lim_max=1))
        out.append(inst_plan((5,), (3,), 2, 3))  # a 1-d merge deep enough for the degree pass to insert steps
        for mo, mn in ((1, 2), (2, 1), (2, 2), (2, 3), (3, 2), (3, 3)):
            out.append(inst_crosswalk(mo, mn))
            out.append(inst_crosswalk(mo, mn, lo=0))
    else:
        for mo in range(1, 6):
            for mn in range(1, 6):
                if mo != mn:
                    out.append(inst_plan((mo,), (mn,), 2, 6, lim_max=64, thr_max=8))
        for deg in (3, 4, 8):
            out.append(inst_plan((5,), (1,), deg, 6))
            out.append(inst_plan((1,), (5,), deg, 6))
        # (ten blocks on two axes -- (3,2)->(2,3), (2,3)->(3,2) -- do not finish in 45 minutes even with sizes <= 2 once the
        # zero-width handling of merge_to_number is part of the path conditions: outside the thorough tier, stated)
        for mo, mn in (((2, 1), (1, 2)), ((2, 2), (1, 2)), ((1, 2), (2, 1)), ((2, 2), (2, 1)), ((3, 1), (1, 3)), ((1, 3), (3, 1)),
                       ((2, 2), (3, 2))):
            for deg in (2, 100):
                out.append(inst_plan(mo, mn, deg, 2 if sum(mo) + sum(mn) >= 9 else 4, lim_max=32, thr_max=8))
        for mo in range(1, 6):
            for mn in range(1, 6):
                out.append(inst_crosswalk(mo, mn))
                if mo <= 4 and mn <= 4:
                    out.append(inst_crosswalk(mo, mn, lo=0))
        out.append(inst_plan((1, 1, 2), (1, 2, 1), 100, 4, empty_axes=(0,)))
        out.append(inst_plan((1, 2, 2), (1, 1, 3), 2, 3, empty_axes=(0,)))
        out.append(inst_plan((2, 1), (1, 2), 100, 4, itemsize=3, lim_max=48))
        out.append(inst_plan((2, 1), (1, 2), 100, 4, itemsize=8, lim_max=64))
        out.append(inst_plan((2, 2), (1, 2), 2, 5, itemsize=8, lim_max=64))
    return out
