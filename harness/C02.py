"""C02 -- Every optimization phase and every fired rewrite preserves values.

The repository's own optimizer runs on trees of symbolic nodes with symbolic chunk sizes: dask's ``Expr.simplify`` driver
over the repository's ``_simplify_down`` / ``_simplify_up`` (slice / rechunk pushdowns with their sharing gates),
``lower_completely`` over ``_lower`` (chunk unification, rechunk-into-IO, ...), and ``optimize_blockwise_fusion_array``.
For every catalogue program the raw, simplified, lowered and fused forms are each turned into task graphs by their real
``_layer`` methods and executed on symbolic arrays; all four equal the NumPy meaning of the program (hence each other) at a
skolem index, with equal shapes.  Fused tasks are executed through dask's Task.fuse sub-graphs, so the block every member
reads is the one ``FusedBlockwise._compute_block_ids`` chose."""
from __future__ import annotations

from symx.oracle import AND, EQ
from symx.sarr import same_array

from . import catalog
from .common import unit_hashes
from .C03 import UNITS as _U

PROPERTY = "C02"
UNITS = _U + [(catalog.EX, "ArrayExpr._slice_pushdown"), (catalog.EX, "ArrayExpr._rechunk_pushdown"),
              (catalog.EX, "ArrayExpr._slice_pushdown_culls_block"), (catalog.BW, "Blockwise._accept_slice"),
              (catalog.BW, "Elemwise._accept_slice"), (catalog.TR, "Transpose._accept_slice"), (catalog.TR, "Transpose._simplify_down"),
              (catalog.XP, "ExpandDims._accept_slice"), (catalog.BT, "BroadcastTo._accept_slice"),
              (catalog.CC, "Concatenate._accept_slice"), (catalog.SK, "Stack._accept_slice"),
              (catalog.SB, "SliceSlicesIntegers._simplify_down"), (catalog.RC, "Rechunk._pushdown"),
              (catalog.RC, "Rechunk._pushdown_through_slice"), (catalog.RC, "Rechunk._pushdown_through_concatenate"),
              (catalog.RC, "Rechunk._pushdown_through_transpose"), (catalog.RC, "Rechunk._pushdown_through_elemwise"),
              (catalog.RC, "Rechunk._lower"), (catalog.BW, "optimize_blockwise_fusion_array"), (catalog.BW, "_remove_conflicting_exprs"),
              (catalog.BW, "FusedBlockwise._compute_block_ids"), (catalog.BW, "FusedBlockwise._task")]
STUBS = catalog.STUBS + ["optimizer driver -> dask's Expr.simplify / lower_once and the repository's fuse running on symbolic "
                         "nodes (structural names make the fixpoint detection by name work)"]
ASSUMPTIONS = [
    "programs are the enumerated catalogue and its compositions (harness/catalog.py), including shared subtrees (x + x.T); "
    "which rewrites fire is decided by the real optimizer on each path; chunk sizes, bounds and data are universally quantified",
    "sliding-window kernel substitution is decided under C19, shuffle pushdown and nested-op fusion outside the catalogue are "
    "not decided; dtype: the advertised dtype of every form is compared, the computed values are exact reals (no rounding)",
]


def units():
    return unit_hashes(UNITS)


def bounds(tier):
    return dict(programs=sorted(catalog.programs(tier)), sizes="unbounded")


def _tree(n, depth=0, out=None):
    out = [] if out is None else out
    out.append("  " * depth + type(n).__dict__.get("_symx_real", type(n)).__name__)
    for d in n.dependencies():
        _tree(d, depth + 1, out)
    return out


def _body(E, w, prog):
    st = catalog.stages(E, w, prog.node, {"raw", "simplified", "lowered", "fused"})
    E.observe("raw-tree", _tree(prog.node))
    E.observe("simplified-tree", _tree(st["simplified"]))
    E.observe("fused-tree", _tree(st["fused"]))
    for k, stage in enumerate(("raw", "lowered", "fused")):
        node = st[stage]
        whole, dsk, r = catalog.run_tree(E, node, node.chunks, stage, check_shapes=True)
        same_array(E, whole, prog.ref, label=f"{stage}-values", skolem=f"p{k}_")
        E.ensure(f"{stage}-dtype", node.dtype == prog.node.dtype)
    s = st["simplified"]
    E.ensure("simplified-dtype", s.dtype == prog.node.dtype)
    E.ensure("simplified-shape", AND(*[sum(a) == sum(b) for a, b in zip(s.chunks, prog.node.chunks)]) if len(s.chunks) == len(prog.node.chunks) else False)


def instances(tier):
    return catalog.make_instances(tier, "C02", _body, "simplify / lower / fuse on symbolic trees + layers")
