"""C24 -- Source reads return exactly the requested elements.

Symbolic nodes of the repository's own FromArray / SliceSlicesIntegers / Rechunk classes
(symx.nodes: real methods, no content hashing) are driven through the rewrites that push
slices and rechunks into the read (FromArray._accept_slice, ._accept_rechunk, ._with_chunks),
then the resulting tree's real ``_layer`` graphs are executed on symbolic arrays (symx.sarr)
and compared with NumPy indexing of the source; every store read is checked to lie inside the
source."""
from __future__ import annotations

import itertools

import numpy as np

from symx import core
from symx.graph import layer_keys_ok, run_blocks
from symx.oracle import AND, EQ, IMPLIES, NOT, OR, int_in_range
from symx.runner import Instance
from symx.sarr import BoundsLog, SArr, leaf, same_array
from symx.world import SHIM_LIST, SymNp

from .common import Cfg, collect_graph, lower_tree, unit_hashes, world

PROPERTY = "C24"
FA = "dask_array.io._from_array"
IOB = "dask_array.io._base"
EX = "dask_array._expr"
CU = "dask_array._core_utils"
SB = "dask_array.slicing._basic"
SU = "dask_array.slicing._utils"
RC = "dask_array._rechunk"
MODS = [FA, IOB, EX, CU, SB, SU, RC]
UNITS = [(FA, "FromArray._accept_slice"), (FA, "FromArray._accept_rechunk"), (FA, "FromArray._with_chunks"),
         (FA, "FromArray._layer"), (FA, "FromArray.chunks"), (FA, "FromArray._effective_shape"),
         (FA, "_source_storage_chunks"), (SB, "_compose_slices"), (SB, "_compute_sliced_chunks"),
         (SB, "SliceSlicesIntegers.chunks"), (SB, "SliceSlicesIntegers._layer"), (SU, "normalize_index"),
         (SU, "_slice_1d"), (SU, "new_blockdim"), (CU, "slices_from_chunks"), (CU, "graph_from_arraylike"),
         (CU, "normalize_chunks"), (RC, "TasksRechunk._layer"), (RC, "_compute_rechunk"), (RC, "old_to_new"),
         (EX, "ArrayExpr.shape")]
STUBS = SHIM_LIST + [
    "expression classes -> symx.nodes (real methods on cloned code, constructor/tokenize bypassed, names = creation order)",
    "source arrays -> symbolic arrays whose elements are an uninterpreted function of the position; a 'store' source "
    "logs an obligation 0 <= start <= stop <= length, unit step, for every slice it is asked for; an 'ndarray' source "
    "clamps like NumPy",
    "block kernels getitem/getter/concatenate3 -> their NumPy meaning on symbolic arrays (symx.graph.KERNELS)",
    "plan_rechunk -> single-step plan [target] inside TasksRechunk._layer (plans are C15's subject)",
    "np.ndarray inside io/_from_array.py -> the harness's ndarray-like class (so type(self.array) in (np.ndarray, ...) holds)",
    "_meta of source nodes -> empty NumPy array of the right rank",
]
ASSUMPTIONS = [
    "rank (<=2), number of blocks per axis, number and kind of pushed indices, storage chunk sizes are concrete per "
    "instance; chunk sizes, slice bounds, integer indices are unbounded integers",
    "pushed slices have unit step (FromArray._accept_slice declines others; the declined form is executed as a "
    "SliceSlicesIntegers layer above the read)",
    "storage-grid instances: storage chunk size concrete in {2,3}; the region spans at most 3 storage chunks "
    "(range(first_boundary, stop, storage) iterates a solver-concretised number of times)",
    "custom getitem callables, locks and the objects behind zarr/h5py are outside the claim",
]


def units():
    return unit_hashes(UNITS)


def bounds(tier):
    q = tier == "quick"
    return dict(rank=[1, 2], blocks_per_axis=[1, 2, 3] if q else [1, 2, 3, 4], chain_length=[1, 2, 3],
                storage_chunk=[2, 3], ints="unbounded")


class SNd(SArr):
    """ndarray-like source"""


class SStore(SArr):
    """non-NumPy store: every request must be an in-bounds unit-step slice tuple"""

    chunks = None

    def __getitem__(self, index):
        if not isinstance(index, tuple):
            index = (index,)
        ok = len(index) == self.ndim
        conds = []
        for ind, n in zip(index, self.shape):
            if not hasattr(ind, "start"):
                ok = False
                continue
            st = ind.step
            conds.append(AND(st is None or st == 1, ind.start is not None, ind.stop is not None))
            if ind.start is not None and ind.stop is not None:
                conds.append(AND(ind.start >= 0, ind.start <= ind.stop, ind.stop <= n))
        self.log.add("store read is a full-rank tuple of slices", ok)
        self.log.add("store read within source bounds", AND(*conds) if conds else True)
        return SArr.__getitem__(self, index)


class _FaNp(SymNp):
    """numpy as seen from io/_from_array.py: np.ndarray is the harness's ndarray-like class and the
    element count of a region with >= 2 symbolic extents (a nonlinear product that only feeds the
    'small enough to copy eagerly' threshold) is an unconstrained non-negative integer: both
    sides of that threshold are explored for every region."""

    @staticmethod
    def prod(x, *a, **k):
        x = list(x)
        syms = [v for v in x if isinstance(v, core.SymInt)]
        if len(syms) < 2:
            return SymNp.prod(tuple(x))
        E = core._eng()
        E.tags["_nprod"] = E.tags.get("_nprod", 0) + 1  # tags are reset per path: deterministic names
        name = f"prod{E.tags['_nprod']}"
        v = E.int(name, 0)
        from symx.oracle import IFF

        E.assume(IFF(OR(*[d == 0 for d in x]), v == 0))
        return v


def W(E):
    w = world("C24", E.symbolic, MODS, nodes=True,
              extra=dict(plan_rechunk=lambda old, new, *a, **k: [new],
                         config=Cfg({"array.rechunk.method": "tasks"})),
              extra_by_module={FA: dict(np=_FaNp(ndarray=SNd) if E.symbolic else _NpView(SNd))})
    w.space.reset()
    return w


class _NpView:
    def __init__(self, nd):
        self.ndarray = nd

    def __getattr__(self, k):
        return getattr(np, k)


def mk(E, name, present):
    return E.int(name) if present else None


def _raw_index(E, spec, tag):
    out = []
    for k, s in enumerate(spec):
        if s == "i":
            out.append(E.int(f"{tag}i{k}"))
        else:
            out.append(E.slice(mk(E, f"{tag}s{k}a", s[0]), mk(E, f"{tag}s{k}b", s[1]), s[2]))
    return tuple(out)


def _finish(E, log, top, ref, label="read"):
    """graph of the tree under `top` executed on symbolic arrays == ref"""
    top = lower_tree(top)
    dsk = collect_graph(top)
    chunks = top.chunks
    E.observe("chunks", [list(c) for c in chunks])
    layer_keys_ok(E, dsk, top._name, tuple(len(c) for c in chunks))
    whole, _r = run_blocks(E, dsk, top._name, chunks)
    for lab, cond in log.items:
        E.ensure(lab, cond)
    same_array(E, whole, ref, label=label)


def _plain_getitem(a, index):
    """a custom getitem of the documented signature (a, index) -> value"""
    return a[index]


_plain_getitem.__symx_kernel__ = True


def inst_chain(kind, blocks, chain, storage=None, rechunk_at=None, new_blocks=None, itemsize=8, inline=False, custom_getitem=False):
    """kind: 'store' | 'ndarray'; blocks: initial blocks per axis; chain: list of raw index specs;
    rechunk_at: position in the chain after which a rechunk to `new_blocks` blocks per axis is pushed."""
    rank = len(blocks)

    def body(E):
        import dask_array.io._from_array as FAm
        import dask_array._rechunk as RCm
        import dask_array.slicing._basic as SBm

        w = W(E)
        S = w.space
        log = BoundsLog()
        chunks = tuple(tuple(E.int(f"c{a}_{i}", 1) for i in range(m)) for a, m in enumerate(blocks))
        shape = tuple(sum(c) for c in chunks)
        src = leaf("S", shape, log=log, itemsize=itemsize, cls=SStore if kind == "store" else SNd)
        if storage is not None:
            src.chunks = tuple(storage)
        meta = np.empty((0,) * rank)
        if custom_getitem:
            # a user-supplied getitem(a, index): the read -- also the region read a pushed slice turns it into -- calls it with
            # exactly those two arguments
            node = S.make(FAm.FromArray, src, chunks, inline_array=inline, getitem=_plain_getitem, _symx_attrs=dict(_meta=meta))
        else:
            node = S.make(FAm.FromArray, src, chunks, inline_array=inline, _symx_attrs=dict(_meta=meta))
        ref = src if kind != "store" else SArr(src.shape, src._at, src.dtype, None)
        ref = SArr(src.shape, src._at, src.dtype, BoundsLog())  # reference: plain NumPy semantics
        steps = list(chain)
        pos = 0
        while True:
            if rechunk_at is not None and pos == rechunk_at:
                cur = node.chunks
                tgt = tuple(tuple(E.int(f"r{a}_{i}", 1) for i in range(m)) for a, m in enumerate(new_blocks))
                if len(tgt) != len(cur):
                    raise core.HarnessError("rechunk rank mismatch in instance definition")
                for a in range(len(cur)):
                    E.assume(sum(tgt[a]) == sum(cur[a]))
                if storage is not None:
                    for a in range(len(cur)):
                        E.assume(sum(cur[a]) <= 3 * storage[a])
                if isinstance(node, FAm.FromArray):
                    res = node._accept_rechunk(tgt)
                    E.observe("rechunk-pushed", res is not None)
                    if res is None:
                        res = S.make(RCm.TasksRechunk, node, tgt, None, None)
                    node = res
                else:
                    node = S.make(RCm.TasksRechunk, node, tgt, None, None)
                E.ensure("rechunk-target-chunks", EQ(tuple(node.chunks), tgt))
            if pos >= len(steps):
                break
            raw = _raw_index(E, steps[pos], f"k{pos}")
            cur_shape = node.shape
            if custom_getitem and hasattr(raw[0], "start") and raw[0].start is not None:
                E.assume(AND(raw[0].start >= 1, raw[0].start < cur_shape[0]))  # a proper sub-range: the read gets a region
            ints_ok = AND(*[int_in_range(r, n) for r, n in zip(raw, cur_shape) if not hasattr(r, "start")])
            try:
                idx = w.fn(SU, "normalize_index")(raw, cur_shape)
            except IndexError:
                E.ensure("IndexError-only-when-out-of-range", NOT(ints_ok))
                return
            E.ensure("out-of-range-int-raises", ints_ok)
            ref = ref[raw]
            sl = S.make(SBm.SliceSlicesIntegers, node, idx, True, _symx_attrs=dict(_meta=meta))
            target = node
            # the slice is offered to the read below it (through a pushed-rechunk wrapper it is not)
            if isinstance(target, FAm.FromArray):
                res = target._accept_slice(sl)
            else:
                res = None
            E.observe(f"pushed{pos}", res is not None)
            node = sl if res is None else res
            pos += 1
        _finish(E, log, node, ref)

    def api(values):
        import dask_array as da

        cs = tuple(tuple(values[f"c{a}_{i}"] for i in range(m)) for a, m in enumerate(blocks))
        shape = tuple(sum(c) for c in cs)
        if int(np.prod(shape)) > 20000:
            return dict(ok=False, detail="too large for an API replay; unit-level replay stands")
        data = np.arange(int(np.prod(shape)), dtype="i8").reshape(shape)

        class Store:
            def __init__(self, a):
                self.a, self.shape, self.dtype, self.ndim = a, a.shape, a.dtype, a.ndim
                self.reads = []
                if storage is not None:
                    self.chunks = tuple(storage)

            def __getitem__(self, ix):
                ix = ix if isinstance(ix, tuple) else (ix,)
                for s, n in zip(ix, self.shape):
                    if isinstance(s, slice):
                        a, b = s.start, s.stop
                        if a is None or b is None or not (0 <= a <= b <= n):
                            raise AssertionError(f"out-of-bounds read {ix} on shape {self.shape}")
                return self.a[ix]

        srcobj = Store(data) if kind == "store" else data
        x = da.from_array(srcobj, chunks=cs, inline_array=inline, **(dict(getitem=lambda a, i: a[i]) if custom_getitem else {}))
        want = data
        try:
            for pos, spec in enumerate(chain + [None]):
                if rechunk_at is not None and pos == rechunk_at:
                    tgt = tuple(tuple(values[f"r{a}_{i}"] for i in range(m)) for a, m in enumerate(new_blocks))
                    x = x.rechunk(tgt)
                if spec is None:
                    break
                raw = []
                for k, s in enumerate(spec):
                    if s == "i":
                        raw.append(values[f"k{pos}i{k}"])
                    else:
                        raw.append(slice(values.get(f"k{pos}s{k}a"), values.get(f"k{pos}s{k}b"), s[2]))
                raw = tuple(raw)
                try:
                    want = want[raw]
                except IndexError:
                    try:
                        x[raw].compute(scheduler="sync")
                    except IndexError:
                        return dict(ok=True, detail="both raise IndexError")
                    return dict(ok=False, detail="numpy raises IndexError, dask_array does not")
                x = x[raw]
            got = x.compute(scheduler="sync")
        except AssertionError as ex:
            return dict(ok=False, detail=str(ex))
        ok = got.shape == want.shape and bool(np.array_equal(got, want))
        return dict(ok=ok, detail=f"chunks={cs} got={np.asarray(got).tolist()} want={np.asarray(want).tolist()}"[:300])

    nm = "x".join(map(str, blocks))
    extra = f",storage={storage}" if storage else ""
    extra += f",rechunk@{rechunk_at}->{new_blocks}" if rechunk_at is not None else ""
    extra += ",inline" if inline else ""
    extra += ",getitem=(a, index)" if custom_getitem else ""
    cost = (max(blocks) ** 2) * (3 ** len(chain)) * (2 if rechunk_at is not None else 1)
    return Instance(f"read[{kind},blocks={nm},chain={chain}{extra}]", body,
                    dict(kind=kind, blocks=blocks, chain=chain, storage=storage, rechunk_at=rechunk_at,
                         new_blocks=new_blocks, inline_array=inline), unit="FromArray._accept_slice/_accept_rechunk/_layer", api_replay=api,
                    cost=cost, wall_s=900)


F = (1, 1, None)   # slice(a, b)
LO = (1, 0, None)  # slice(a, None)
HI = (0, 1, None)  # slice(None, b)
ALL = (0, 0, None)
ST2 = (1, 1, 2)
NEG = (1, 1, -1)


def _program_body(E, w, prog):
    """programs whose slices and rechunks the optimizer absorbs into the read (several reads of one source in one graph
    included): the materialized graph returns NumPy's elements"""
    from symx.sarr import same_array

    from . import catalog

    m = catalog.stages(E, w, prog.node, {"materialized"})["materialized"]
    whole, dsk, r = catalog.run_tree(E, m, prog.node.chunks, "materialized", check_shapes=True)
    same_array(E, whole, prog.ref, label="read-values", skolem="pm")


def _program_instances(tier):
    from . import catalog

    names = ("rechunk(x2->3)", "rechunk(x2x2->1x3)", "rechunk(x2->2)[a:b]", "rechunk(x3[a:b])", "rechunk(rechunk(x2->3)->2)",
             "slice(x3)[a:b]", "x2x2[a:b][c:d](fused slices)")
    return catalog.make_instances(tier, "C24", _program_body, "FromArray._accept_slice/_accept_rechunk/_with_chunks inside programs",
                                  select=lambda name: name in names or "two regions" in name)


def instances(tier):
    q = tier == "quick"
    out = _program_instances(tier)
    for kind in ("store", "ndarray"):
        for m in ([1, 2, 3] if q else [1, 2, 3, 4]):
            out.append(inst_chain(kind, (m,), [(F,)]))
            out.append(inst_chain(kind, (m,), [("i",)]))
        out.append(inst_chain(kind, (2,), [(F,), (F,)]))
        out.append(inst_chain(kind, (2,), [(LO,), (HI,)]))
        out.append(inst_chain(kind, (3,), [(LO,), (F,)]))
        out.append(inst_chain(kind, (2,), [(F,), ("i",)]))
        out.append(inst_chain(kind, (2,), [(F,), (ST2,)]))
        out.append(inst_chain(kind, (2,), [(F,), (NEG,)]))
        out.append(inst_chain(kind, (2,), [(LO,), (LO,), (F,)]))
        out.append(inst_chain(kind, (2, 2), [(F, F)]))
        out.append(inst_chain(kind, (2, 2), [("i", F)]))
        out.append(inst_chain(kind, (2, 2), [(F, "i")]))
        out.append(inst_chain(kind, (2, 1), [(F, LO), (HI, F)]))
        out.append(inst_chain(kind, (2, 2), [(LO, F), ("i", ALL)]))
        # rechunk pushed into the read, before / between / after slices
        out.append(inst_chain(kind, (2,), [], rechunk_at=0, new_blocks=(3,)))
        out.append(inst_chain(kind, (2,), [(F,)], rechunk_at=1, new_blocks=(2,)))
        out.append(inst_chain(kind, (2,), [(F,)], rechunk_at=0, new_blocks=(2,)))
        out.append(inst_chain(kind, (2,), [(LO,), (F,)], rechunk_at=1, new_blocks=(2,)))
        if not q:
            out.append(inst_chain(kind, (3,), [(F,), (F,), (F,)]))
            out.append(inst_chain(kind, (3, 2), [(F, LO)]))
            out.append(inst_chain(kind, (2, 2), [(F, LO), (HI, F)]))
            out.append(inst_chain(kind, (2, 2), [(F, F)], rechunk_at=1, new_blocks=(2, 2)))
            out.append(inst_chain(kind, (3,), [(LO,), (F,)], rechunk_at=1, new_blocks=(3,)))
    # inline_array=True takes a different graph-construction branch for stores
    out.append(inst_chain("store", (2,), [(F,)], inline=True))
    out.append(inst_chain("store", (2,), [(F,)], custom_getitem=True))
    out.append(inst_chain("store", (2,), [(F,)], inline=True, custom_getitem=True))
    out.append(inst_chain("store", (2,), [("i",)], inline=True))
    out.append(inst_chain("store", (2, 2), [(F, LO)], inline=True))
    out.append(inst_chain("store", (2,), [], rechunk_at=0, new_blocks=(3,), inline=True))
    out.append(inst_chain("store", (2,), [(LO,)], rechunk_at=1, new_blocks=(2,), inline=True))
    # stores with their own storage grid: rechunks must not split native chunks below the region
    for st in (2, 3):
        out.append(inst_chain("store", (2,), [], storage=(st,), rechunk_at=0, new_blocks=(2,)))
        out.append(inst_chain("store", (2,), [(F,)], storage=(st,), rechunk_at=1, new_blocks=(2,)))
        if not q:
            out.append(inst_chain("store", (2,), [(LO,)], storage=(st,), rechunk_at=1, new_blocks=(3,)))
            out.append(inst_chain("store", (3,), [(F,)], storage=(st,), rechunk_at=1, new_blocks=(2,)))
    return out
