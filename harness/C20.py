"""C20 -- map_blocks block_info/block_id match the layout the call was built against.

Catalogue programs in which ``map_blocks(f, x)`` is called with a function that reads ``block_info`` (or ``block_id``):
``f`` adds the global start offset the payload reports for its block, so a block fed from any other layout changes the
values, and obliges the block it is handed to have exactly the extent the payload describes (input entry and output
entry, ``chunk-shape`` included).  The call is placed under and over rewrites -- a slice, a transpose or a rechunk above
it; a rechunk that the optimizer would absorb into the source, an unaligned element-wise operation, a slice, and the
native sliding-window substitution (which trades the advertised chunks for the input's own) below it -- and every form
the repository's optimizer produces (raw, lowered, fused, materialized with optimization on and off) is executed from
its real layers on symbolic blocks and compared with the reference written from the layout advertised when the call was
made."""
from __future__ import annotations

from symx.sarr import same_array

from . import catalog
from .common import unit_hashes

PROPERTY = "C20"
MB = "dask_array._map_blocks"
UNITS = [(MB, "map_blocks"), (catalog.CU, "_pass_extra_kwargs"), (catalog.EX, "ChunksFreeze.chunks"), (catalog.EX, "ChunksFreeze.lower_once"),
         (catalog.EX, "ArrayExpr._requires_grid_preservation"), (catalog.EX, "ArrayExpr._preserve_grid_contract"),
         (catalog.BW, "Blockwise._requires_grid_preservation"), (catalog.EX, "ArrayExpr._slice_pushdown"),
         (catalog.MT, "_materialize"), ("dask.layers", "ArrayValuesDep.__getitem__"), ("dask.layers", "ArrayBlockIdDep.__getitem__")]
STUBS = catalog.STUBS + ["user function -> harness functions reading block_info / block_id (stating the extent obligation through the "
                         "running engine)"]
ASSUMPTIONS = [
    "one array input (and one two-input call of different ranks under drop_axis=0), chunks= not given, rank <= 2; block counts concrete, chunk sizes, slice bounds and data "
    "symbolic and unbounded; the placements of the call are the enumerated programs (names in evidence.bounds)",
    "other multi-input calls, new_axis, explicit chunks=, map_overlap's internal use of the same mechanism (decided under "
    "C19), user functions that are not pure: outside",
]


def units():
    return unit_hashes(UNITS)


def bounds(tier):
    return dict(programs=sorted(n for n in catalog.programs(tier) if "map_blocks(f_" in n), sizes="unbounded")


def _body(E, w, prog):
    for stage in ("materialized", "materialized_off"):
        m = catalog.stages(E, w, prog.node, {stage})[stage]
        whole, dsk, r = catalog.run_tree(E, m, prog.node.chunks, stage, check_shapes=True)
        same_array(E, whole, prog.ref, label=f"{stage}-values", skolem=f"p{stage[-1]}")
    st = catalog.stages(E, w, prog.node, {"raw", "lowered", "fused"})
    for k, stage in enumerate(("raw", "lowered", "fused")):
        node = st[stage]
        whole, dsk, r = catalog.run_tree(E, node, node.chunks, stage, check_shapes=True)
        same_array(E, whole, prog.ref, label=f"{stage}-values", skolem=f"q{k}_")


def instances(tier):
    return catalog.make_instances(tier, "C20", _body, "map_blocks + ChunksFreeze + grid-preservation gates through the optimizer",
                                  select=lambda name: "map_blocks(f_" in name)
